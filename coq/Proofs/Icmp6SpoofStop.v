(* Proofs/Icmp6SpoofStop.v — C14_stop / C14_close with the real-time residue made exact.
   A spoofLoop pass decides under the lock (Lookup) and sends outside it (Send), so frames that were
   decided before StopHunt/Close returns may still leave afterwards.  The theorems bound them exactly:
   after StopHunt a, at most the frames already on the lists of the loops aimed at a's MAC; after Close,
   at most the frames already on any list.  The stronger reading ("no frame after StopHunt/Close
   returns") is refuted by an interleaving. *)
From PV Require Import Base.Prelude Model.Icmp6SpoofRA Model.Icmp6Spoof Proofs.Icmp6Spoof.
Open Scope N_scope.

Definition contrib (mac : bytes) (l : sloop) : nat :=
  if bytes_eqb (a_mac (l_dst l)) mac then List.length (l_pending l) else 0%nat.
Fixpoint pend_to (mac : bytes) (ls : list sloop) : nat :=
  match ls with [] => 0%nat | l :: r => (contrib mac l + pend_to mac r)%nat end.
Fixpoint pend_all (ls : list sloop) : nat :=
  match ls with [] => 0%nat | l :: r => (List.length (l_pending l) + pend_all r)%nat end.

Definition nas_to (mac : bytes) (o : out) : nat :=
  match o with ONAs l => List.length (filter (fun n => bytes_eqb (na_eth_dst n) mac) l) | _ => 0%nat end.
Definition nas_of (o : out) : nat := match o with ONAs l => List.length l | _ => 0%nat end.
Fixpoint count_to (mac : bytes) (tr : list (state * event * out)) : nat :=
  match tr with [] => 0%nat | (_, _, o) :: r => (nas_to mac o + count_to mac r)%nat end.
Fixpoint count_all (tr : list (state * event * out)) : nat :=
  match tr with [] => 0%nat | (_, _, o) :: r => (nas_of o + count_all r)%nat end.

Lemma pend_to_app mac a b : pend_to mac (a ++ b) = (pend_to mac a + pend_to mac b)%nat.
Proof. induction a as [|x r IH]; cbn [app pend_to]; [reflexivity|]. rewrite IH. lia. Qed.
Lemma pend_all_app a b : pend_all (a ++ b) = (pend_all a + pend_all b)%nat.
Proof. induction a as [|x r IH]; cbn [app pend_all]; [reflexivity|]. rewrite IH. lia. Qed.

Lemma pend_to_setp mac : forall l i p x, nth_error l i = Some x ->
  (pend_to mac (set_pending l i p) + contrib mac x = pend_to mac l + contrib mac (mkLoop (l_dst x) (l_alive x) p))%nat.
Proof.
  induction l as [|y r IH]; intros [|i] p x H; cbn in H; try discriminate.
  - inversion H; subst. cbn [set_pending pend_to]. lia.
  - cbn [set_pending pend_to]. specialize (IH i p x H). lia.
Qed.
Lemma pend_to_kill mac : forall l i x, nth_error l i = Some x ->
  (pend_to mac (kill l i) + contrib mac x = pend_to mac l)%nat.
Proof.
  induction l as [|y r IH]; intros [|i] x H; cbn in H; try discriminate.
  - inversion H; subst. cbn [kill pend_to]. unfold contrib at 1. cbn [l_dst l_pending List.length].
    destruct (bytes_eqb (a_mac (l_dst x)) mac); lia.
  - cbn [kill pend_to]. specialize (IH i x H). lia.
Qed.
Lemma pend_all_setp : forall l i p x, nth_error l i = Some x ->
  (pend_all (set_pending l i p) + List.length (l_pending x) = pend_all l + List.length p)%nat.
Proof.
  induction l as [|y r IH]; intros [|i] p x H; cbn in H; try discriminate.
  - inversion H; subst. cbn [set_pending pend_all l_pending]. lia.
  - cbn [set_pending pend_all]. specialize (IH i p x H). lia.
Qed.
Lemma pend_all_kill : forall l i x, nth_error l i = Some x ->
  (pend_all (kill l i) + List.length (l_pending x) = pend_all l)%nat.
Proof.
  induction l as [|y r IH]; intros [|i] x H; cbn in H; try discriminate.
  - inversion H; subst. cbn [kill pend_all l_pending List.length]. lia.
  - cbn [kill pend_all]. specialize (IH i x H). lia.
Qed.

(* ---- one step, while the MAC is not hunted: the frames to it can only be used up ---- *)
Lemma step_bound_to c st e mac :
  al_has (hunt st) mac = false -> (forall a, e = StartHunt a -> bytes_eqb (a_mac a) mac = false) ->
  (nas_to mac (snd (step c st e)) + pend_to mac (loops (fst (step c st e))) <= pend_to mac (loops st))%nat.
Proof.
  intros Hn Hs. destruct e as [a|a| |i order|i|src eth p hk|q| ]; cbn [step].
  - unfold start_hunt. destruct (is4 (a_ip a)); [cbn; lia|].
    destruct (is6 (a_ip a) && negb (is_llu (a_ip a))); [cbn; lia|].
    destruct (al_has (hunt st) (a_mac a)); [cbn; lia|].
    cbn [fst snd loops nas_to]. rewrite pend_to_app. cbn [pend_to]. unfold contrib. cbn [l_pending List.length].
    destruct (bytes_eqb _ mac); lia.
  - unfold stop_hunt. destruct (_ && _); cbn; lia.
  - unfold close. destruct (closed st); cbn; lia.
  - unfold lookup. destruct (nth_error (loops st) i) as [lp|] eqn:En; [|cbn; lia].
    destruct (negb (l_alive lp)); [cbn; lia|]. destruct (l_pending lp) eqn:Ep; [|cbn; lia].
    destruct (negb (al_has (hunt st) (a_mac (l_dst lp))) || closed st) eqn:Eh.
    + cbn [fst snd set_loops loops nas_to]. pose proof (pend_to_kill mac _ _ _ En). lia.
    + apply orb_false_iff in Eh as [Eh _]. apply negb_false_iff in Eh.
      destruct (defrouter st); [|cbn; lia].
      cbn [fst snd set_loops loops nas_to].
      pose proof (pend_to_setp mac _ i (pick order (map (fun kr => r_ip (snd kr)) (routers st))) _ En) as Hp.
      unfold contrib in Hp. cbn [l_dst l_pending] in Hp. rewrite Ep in Hp.
      destruct (bytes_eqb (a_mac (l_dst lp)) mac) eqn:Em.
      * apply bytes_eqb_eq in Em. rewrite Em in Eh. congruence.
      * lia.
  - unfold send. destruct (nth_error (loops st) i) as [lp|] eqn:En; [|cbn; lia].
    destruct (l_pending lp) as [|ip rest] eqn:Ep; [cbn; lia|].
    cbn [fst snd set_loops loops nas_to filter forge na_eth_dst].
    pose proof (pend_to_setp mac _ i rest _ En) as Hp. unfold contrib in Hp. cbn [l_dst l_pending] in Hp. rewrite Ep in Hp.
    destruct (bytes_eqb (a_mac (l_dst lp)) mac); cbn [List.length] in *; lia.
  - unfold rx_ra. destruct (blen p <? 16); [cbn; lia|].
    destruct (negb (Z.rem (repeat_ st + 1) 4 =? 0)%Z); [cbn; lia|].
    destruct (negb hk); [cbn; lia|].
    destruct (ra_options p); try (cbn; lia).
    destruct (rt_find (routers st) src); cbn; lia.
  - cbn. lia.
  - cbn. lia.
Qed.

Lemma run_bound_to c mac : forall evs st,
  al_has (hunt st) mac = false -> no_start mac evs ->
  (count_to mac (fst (run c st evs)) + pend_to mac (loops (snd (run c st evs))) <= pend_to mac (loops st))%nat.
Proof.
  induction evs as [|e r IH]; intros st Hn Hs; [cbn; lia|].
  cbn [run]. destruct (step c st e) as [st' o] eqn:Hstep. destruct (run c st' r) as [tr fin] eqn:Hrun.
  cbn [fst snd count_to].
  assert (H1 : (nas_to mac o + pend_to mac (loops st') <= pend_to mac (loops st))%nat).
  { pose proof (step_bound_to c st e mac Hn) as Hb. rewrite Hstep in Hb. apply Hb. intros a ->. apply Hs. left. reflexivity. }
  assert (H2 : al_has (hunt st') mac = false).
  { replace st' with (fst (step c st e)) by (rewrite Hstep; reflexivity).
    apply step_keeps_unhunted; [exact Hn|]. intros a ->. apply Hs. left. reflexivity. }
  assert (H3 : no_start mac r) by (intros a Ha; apply Hs; right; exact Ha).
  specialize (IH st' H2 H3). rewrite Hrun in IH. cbn [fst snd] in IH. lia.
Qed.

(* C14_stop: after an effective StopHunt of a (any history before), in any continuation without a new
   StartHunt of a's MAC, the forged advertisements that still go to that MAC number at most the
   frames that were already decided (on the lists of the loops aimed at that MAC) when StopHunt returned *)
Theorem stop_bound c rep evs1 a evs2 :
  stop_effective a -> no_start (a_mac a) evs2 ->
  let st := snd (run c (init rep) evs1) in
  let st1 := fst (step c st (StopHunt a)) in
  (count_to (a_mac a) (fst (run c st1 evs2)) <= pend_to (a_mac a) (loops st))%nat.
Proof.
  intros He Hs st st1.
  assert (Hr : reach c (init rep) st) by (apply run_final_reach; constructor).
  assert (Hu : uniq (hunt st)) by (eapply reach_uniq; eauto; exact I).
  assert (H2 : al_has (hunt st1) (a_mac a) = false) by (apply stop_unhunts; assumption).
  pose proof (run_bound_to c (a_mac a) evs2 st1 H2 Hs) as Hb.
  assert (Hl : loops st1 = loops st).
  { unfold st1. cbn [step]. unfold stop_hunt. destruct (_ && _); reflexivity. }
  rewrite Hl in Hb. lia.
Qed.

Lemma count_to_zero mac : forall tr, count_to mac tr = 0%nat ->
  forall s e l, In (s, e, ONAs l) tr -> forall n, In n l -> bytes_eqb (na_eth_dst n) mac = false.
Proof.
  induction tr as [|[[s0 e0] o0] r IH]; intros H s e l Hin n Hn; [contradiction|].
  cbn [count_to] in H. destruct Hin as [Heq|Hin].
  - inversion Heq; subst. cbn [nas_to] in H.
    destruct (bytes_eqb (na_eth_dst n) mac) eqn:E; [|reflexivity]. exfalso.
    assert (Hf : In n (filter (fun n => bytes_eqb (na_eth_dst n) mac) l)) by (apply filter_In; auto).
    destruct (filter _ l); [contradiction|cbn in H; lia].
  - eapply IH; eauto. lia.
Qed.

(* in particular: nothing decided at StopHunt -> nothing ever reaches that MAC *)
Theorem stop_quiescent c rep evs1 a evs2 :
  stop_effective a -> no_start (a_mac a) evs2 ->
  let st := snd (run c (init rep) evs1) in
  let st1 := fst (step c st (StopHunt a)) in
  pend_to (a_mac a) (loops st) = 0%nat ->
  forall s e l, In (s, e, ONAs l) (fst (run c st1 evs2)) -> forall n, In n l -> bytes_eqb (na_eth_dst n) (a_mac a) = false.
Proof.
  intros He Hs st st1 H0. pose proof (stop_bound c rep evs1 a evs2 He Hs) as Hb. cbv zeta in Hb. fold st in Hb. fold st1 in Hb.
  apply count_to_zero. lia.
Qed.

(* ---- Close ---- *)
Lemma step_bound_closed c st e : closed st = true ->
  (nas_of (snd (step c st e)) + pend_all (loops (fst (step c st e))) <= pend_all (loops st))%nat.
Proof.
  intros Hc. destruct e as [a|a| |i order|i|src eth p hk|q| ]; cbn [step].
  - unfold start_hunt. destruct (is4 (a_ip a)); [cbn; lia|].
    destruct (is6 (a_ip a) && negb (is_llu (a_ip a))); [cbn; lia|].
    destruct (al_has (hunt st) (a_mac a)); [cbn; lia|].
    cbn [fst snd loops nas_of]. rewrite pend_all_app. cbn [pend_all l_pending List.length]. lia.
  - unfold stop_hunt. destruct (_ && _); cbn; lia.
  - unfold close. destruct (closed st); cbn; lia.
  - unfold lookup. destruct (nth_error (loops st) i) as [lp|] eqn:En; [|cbn; lia].
    destruct (negb (l_alive lp)); [cbn; lia|]. destruct (l_pending lp) eqn:Ep; [|cbn; lia].
    rewrite Hc, orb_true_r. cbn [fst snd set_loops loops nas_of].
    pose proof (pend_all_kill _ _ _ En). lia.
  - unfold send. destruct (nth_error (loops st) i) as [lp|] eqn:En; [|cbn; lia].
    destruct (l_pending lp) as [|ip rest] eqn:Ep; [cbn; lia|].
    cbn [fst snd set_loops loops nas_of List.length].
    pose proof (pend_all_setp _ i rest _ En) as Hp. rewrite Ep in Hp. cbn [List.length] in Hp. lia.
  - unfold rx_ra. destruct (blen p <? 16); [cbn; lia|].
    destruct (negb (Z.rem (repeat_ st + 1) 4 =? 0)%Z); [cbn; lia|].
    destruct (negb hk); [cbn; lia|].
    destruct (ra_options p); try (cbn; lia).
    destruct (rt_find (routers st) src); cbn; lia.
  - cbn. lia.
  - cbn. lia.
Qed.

Lemma run_bound_closed c : forall evs st, closed st = true ->
  (count_all (fst (run c st evs)) + pend_all (loops (snd (run c st evs))) <= pend_all (loops st))%nat.
Proof.
  induction evs as [|e r IH]; intros st Hc; [cbn; lia|].
  cbn [run]. destruct (step c st e) as [st' o] eqn:Hstep. destruct (run c st' r) as [tr fin] eqn:Hrun.
  cbn [fst snd count_all].
  pose proof (step_bound_closed c st e Hc) as H1. rewrite Hstep in H1. cbn [fst snd] in H1.
  assert (H2 : closed st' = true).
  { replace st' with (fst (step c st e)) by (rewrite Hstep; reflexivity). apply step_closed. exact Hc. }
  specialize (IH st' H2). rewrite Hrun in IH. cbn [fst snd] in IH. lia.
Qed.

(* C14_close: after Close at most the frames already decided leave, whatever happens afterwards *)
Theorem close_bound c rep evs1 evs2 :
  let st := snd (run c (init rep) evs1) in
  let st1 := fst (step c st Close) in
  (count_all (fst (run c st1 evs2)) <= pend_all (loops st))%nat.
Proof.
  intros st st1.
  assert (H2 : closed st1 = true).
  { unfold st1. cbn [step]. unfold close. destruct (closed st) eqn:E; [exact E|reflexivity]. }
  pose proof (run_bound_closed c evs2 st1 H2) as Hb.
  assert (Hl : loops st1 = loops st).
  { unfold st1. cbn [step]. unfold close. destruct (closed st); reflexivity. }
  rewrite Hl in Hb. lia.
Qed.

(* ---- the stronger reading fails: the interleaving Lookup ; StopHunt (or Close) ; Send ---- *)
Definition ex_pre : list event :=
  [RxRA ex_src [0;102;102;102;102;102] ex_ra true; StartHunt (mkAddr ex_mac []); Lookup 0 [0%nat]].

Theorem stop_strong_refuted : exists c rep evs1 a evs2,
  stop_effective a /\ no_start (a_mac a) evs2 /\
  let st := snd (run c (init rep) evs1) in
  (exists s e n, In (s, e, ONAs [n]) (fst (run c (fst (step c st (StopHunt a))) evs2)) /\ na_eth_dst n = a_mac a) /\
  count_to (a_mac a) (fst (run c (fst (step c st (StopHunt a))) evs2)) = pend_to (a_mac a) (loops st).
Proof.
  exists ex_cfg, 3%Z, ex_pre, (mkAddr ex_mac []), [Send 0%nat].
  split; [left; reflexivity|]. split.
  - intros a Ha. cbn in Ha. destruct Ha as [Ha|[]]. discriminate.
  - split; [|vm_compute; reflexivity]. eexists. eexists. eexists. split; [vm_compute; left; reflexivity|reflexivity].
Qed.

Theorem close_strong_refuted : exists c rep evs1 evs2,
  let st := snd (run c (init rep) evs1) in
  (exists s e n, In (s, e, ONAs [n]) (fst (run c (fst (step c st Close)) evs2))) /\
  count_all (fst (run c (fst (step c st Close)) evs2)) = pend_all (loops st).
Proof.
  exists ex_cfg, 3%Z, ex_pre, [Send 0%nat]. split; [|vm_compute; reflexivity].
  eexists. eexists. eexists. vm_compute. left. reflexivity.
Qed.
