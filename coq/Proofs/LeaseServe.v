(* Proofs/LeaseServe.v — C18 "keeps acknowledging their renewals and does not offer those addresses to others",
   about the partial transcription Model/LeaseServe.v. *)
From PV Require Import Base.Prelude Model.LeaseBase Model.Lease Model.LeaseKnown Model.LeaseServe
  Proofs.Lease Proofs.LeaseNew Proofs.LeaseRestart.
From Coq Require Import Permutation.
Open Scope N_scope.

(* ---------------------------------------------------------------- *)
(* looking a restored lease up by its client id *)

Lemma tfind_restored cap n2 rs r :
  NoDup (map r_cid rs) -> In r rs ->
  tfind (r_cid r) (map (restored cap n2) rs) = Some (restored cap n2 r).
Proof.
  unfold tfind. induction rs as [|x rs IH]; intros Hnd Hin; [destruct Hin|].
  inversion Hnd as [|? ? Hx Hrs]; subst. simpl.
  unfold l_cid at 1. simpl.
  destruct (bytes_eqb (r_cid x) (r_cid r)) eqn:E.
  - apply bytes_eqb_eq in E. destruct Hin as [->|Hin]; [reflexivity|].
    exfalso. apply Hx. rewrite E. apply in_map. exact Hin.
  - destruct Hin as [->|Hin]; [rewrite bytes_eqb_refl in E; discriminate|].
    apply IH; auto.
Qed.

(* the subnet loadByteArray attached is the one findOrCreate expects for this client *)
Definition sub_consistent (cap : sess) (n2 : subnet) (r : lease_rec) : bool :=
  sub_of cap n2 r =? (if cap (r_mac r) then 2 else 1).

(* C18_restart_renew (partial model): the renewal of a restored, unexpired binding whose client is still on
   the subnet the lease was restored to, and whose address nobody else holds, is ACKed with the same address *)
Lemma renew_restored cap hosts n1 n2 now rs r :
  NoDup (map r_cid rs) -> In r rs ->
  (r_state r =? 2)%Z = true ->
  avalid (r_ip r) = true -> is_unspec (r_ip r) = false ->
  (now <= r_expiry r)%Z ->
  sub_consistent cap n2 r = true ->
  taken hosts (map (restored cap n2) rs) (restored cap n2 r) (r_ip r) = false ->
  fst (renew cap hosts n1 n2 now (map (restored cap n2) rs) (r_cid r) (r_mac r) (r_ip r)) = RAck (r_ip r).
Proof.
  intros Hnd Hin Hst Hv Hu Hex Hsub Htk.
  unfold renew. rewrite Hv, Hu. simpl.
  unfold findOrCreate. rewrite (tfind_restored cap n2 rs r Hnd Hin).
  unfold sub_consistent in Hsub. simpl. rewrite Hsub, bytes_eqb_refl. simpl.
  unfold allocated. simpl. rewrite Hst, Htk, addr_eqb_refl, bytes_eqb_refl. simpl.
  assert (Hlt : (r_expiry r <? now)%Z = false) by lia. rewrite Hlt. reflexivity.
Qed.

(* a captured client whose restored address lies outside net2 is NAKed: loadByteArray re-attaches the lease to
   net1, findOrCreate expects net2 and replaces the lease.  (Before /repo 7baf630 such a lease could be ACKed;
   now it arises only when the capture state changes between save and restart, where the NAK is intended.) *)
Lemma renew_restored_subnet_change :
  exists cap n1 n2 r,
    newSubnet ex_net1 = Ok n1 /\ newSubnet ex_net2 = Ok n2 /\
    (r_state r =? 2)%Z = true /\ sub_consistent cap n2 r = false /\
    fst (renew cap (fun _ => None) n1 n2 0%Z (map (restored cap n2) [r]) (r_cid r) (r_mac r) (r_ip r)) = RNak.
Proof.
  destruct (newSubnet ex_net1) as [n1| | |] eqn:E1; try (vm_compute in E1; discriminate).
  destruct (newSubnet ex_net2) as [n2| | |] eqn:E2; try (vm_compute in E2; discriminate).
  exists (fun _ => true), n1, n2, ex_rec.
  vm_compute in E1. vm_compute in E2. inversion E1; inversion E2; subst.
  repeat split; vm_compute; reflexivity.
Qed.

Example renew_restored_nonvacuous :
  exists n1 n2, newSubnet ex_net1 = Ok n1 /\ newSubnet ex_net2 = Ok n2 /\
    sub_consistent (fun _ => false) n2 ex_rec = true /\
    taken (fun _ => None) (map (restored (fun _ => false) n2) [ex_rec]) (restored (fun _ => false) n2 ex_rec) (r_ip ex_rec) = false /\
    fst (renew (fun _ => false) (fun _ => None) n1 n2 500%Z (map (restored (fun _ => false) n2) [ex_rec])
               (r_cid ex_rec) (r_mac ex_rec) (r_ip ex_rec)) = RAck (r_ip ex_rec).
Proof.
  destruct (newSubnet ex_net1) as [n1| | |] eqn:E1; try (vm_compute in E1; discriminate).
  destruct (newSubnet ex_net2) as [n2| | |] eqn:E2; try (vm_compute in E2; discriminate).
  exists n1, n2. vm_compute in E1. vm_compute in E2. inversion E1; inversion E2; subst.
  repeat split; vm_compute; reflexivity.
Qed.

(* ---------------------------------------------------------------- *)
(* an address held by other clients is never offered *)

Lemma In_tinsert_other v x t : In v t -> l_cid v <> l_cid x -> In v (tinsert x t).
Proof.
  induction t as [|y t IH]; simpl; intros Hin Hne; [destruct Hin|].
  destruct (bytes_eqb (l_cid y) (l_cid x)) eqn:E.
  - destruct Hin as [->|Hin]; [|right; exact Hin].
    apply bytes_eqb_eq in E. contradiction.
  - destruct Hin as [->|Hin]; [left; reflexivity|right; apply IH; auto].
Qed.

Lemma scan_found fuel ord hosts bcast : forall next a nx,
  scan fuel ord hosts bcast next = Ok (Some a, nx) -> free_or_none (findByIP ord a) = true.
Proof.
  induction fuel as [|f IH]; intros next a nx H; simpl in H; [discriminate|].
  destruct (aless next bcast); [|discriminate].
  destruct (free_or_none (findByIP ord next) && negb (tracked hosts next)) eqn:E.
  - inversion H; subst. apply andb_true_iff in E. tauto.
  - eapply IH; eauto.
Qed.

(* [a] is held in [t] only by non-free leases of clients other than [cid] *)
Definition held_by_others (t : table) (cid : bytes) (a : addr) : Prop :=
  (exists v, In v t /\ r_ip (l_rec v) = a)
  /\ forall w, In w t -> r_ip (l_rec w) = a -> (r_state (l_rec w) =? 0)%Z = false /\ l_cid w <> cid.

Lemma findByIP_held ord t cid a :
  Permutation ord t -> held_by_others t cid a ->
  exists w, findByIP ord a = Some w /\ (r_state (l_rec w) =? 0)%Z = false /\ l_cid w <> cid.
Proof.
  intros Hp [[v [Hv Ea]] Hall]. unfold findByIP.
  destruct (find (fun l => addr_eqb (r_ip (l_rec l)) a) ord) as [w|] eqn:E.
  - apply find_some in E. destruct E as [Hw Ew]. apply addr_eqb_eq in Ew.
    exists w. split; auto. apply Hall; auto. eapply Permutation_in; eauto.
  - exfalso. eapply find_none in E; [|eapply Permutation_in; [apply Permutation_sym; exact Hp|exact Hv]].
    simpl in E. rewrite Ea, addr_eqb_refl in E. discriminate.
Qed.

Lemma alloc_not_held fuel ord t hosts sn next cid reqIP a nx :
  Permutation ord t -> held_by_others t cid a ->
  allocIPOffer fuel ord hosts sn next cid reqIP = Ok (a, nx) -> False.
Proof.
  intros Hp Hh H.
  destruct (findByIP_held ord t cid a Hp Hh) as (w & Ew & Hst & Hcid).
  assert (Hnf : free_or_none (findByIP ord a) = false) by (rewrite Ew; simpl; exact Hst).
  unfold allocIPOffer in H.
  match type of H with (if ?c then _ else _) = _ => destruct c eqn:Ereq end.
  - inversion H; subst.
    rewrite Ew in Ereq. simpl in Ereq. rewrite Hst in Ereq. simpl in Ereq.
    apply bytes_eqb_neq in Hcid. rewrite Hcid in Ereq. rewrite !andb_false_r in Ereq. simpl in Ereq.
    discriminate.
  - destruct (avalid next).
    + destruct (scan fuel ord hosts (n_bcast sn) next) as [[[a1|] nx1]| | |] eqn:S1; try discriminate.
      * inversion H; subst. apply scan_found in S1. congruence.
      * destruct (scan fuel ord hosts (n_bcast sn) (s_first (n_cfg sn))) as [[[a2|] nx2]| | |] eqn:S2; try discriminate.
        inversion H; subst. apply scan_found in S2. congruence.
    + destruct (scan fuel ord hosts (n_bcast sn) (s_first (n_cfg sn))) as [[[a2|] nx2]| | |] eqn:S2; try discriminate.
      inversion H; subst. apply scan_found in S2. congruence.
Qed.

Lemma findOrCreate_result cap n1 n2 t cid mac l t1 :
  findOrCreate cap n1 n2 t cid mac = (l, t1) ->
  l_cid l = cid /\
  ((In l t /\ t1 = t) \/ (r_ip (l_rec l) = AInv /\ allocated l = false /\ t1 = tinsert l t)).
Proof.
  unfold findOrCreate. unfold tfind.
  destruct (find (fun l0 => bytes_eqb (l_cid l0) cid) t) as [l0|] eqn:E.
  - apply find_some in E. destruct E as [Hin Ec]. apply bytes_eqb_eq in Ec.
    destruct ((l_sub l0 =? (if cap mac then 2 else 1)) && bytes_eqb (r_mac (l_rec l0)) mac).
    + intros H. inversion H; subst. split; auto.
    + intros H. inversion H; subst. split; [reflexivity|]. right. auto.
  - intros H. inversion H; subst. split; [reflexivity|]. right. auto.
Qed.

(* C18_restart_no_reoffer (partial model): whatever the map order, the capture state, the host table, nextIP and
   the requested address — a DISCOVER of client [cid] is never answered with an address that the table holds only
   in non-free leases of other clients. *)
Lemma discover_not_held fuel ordf cap hosts n1 n2 next now t cid mac reqIP a t' :
  (forall x, Permutation (ordf x) x) ->
  avalid a = true ->
  held_by_others t cid a ->
  discover fuel ordf cap hosts n1 n2 next now t cid mac reqIP = Ok (ROffer a, t') -> False.
Proof.
  intros Hord Hva Hh H. unfold discover in H.
  destruct (findOrCreate cap n1 n2 t cid mac) as [l t1] eqn:Ef.
  destruct (findOrCreate_result _ _ _ _ _ _ _ _ Ef) as [Hcid Hl].
  (* the address is still held by others in t1 *)
  assert (Hh1 : held_by_others t1 cid a).
  { destruct Hl as [[_ ->]|(Hip & _ & ->)]; [exact Hh|].
    destruct Hh as [[v [Hv Ea]] Hall]. split.
    - exists v. split; auto. apply In_tinsert_other; auto. rewrite Hcid. apply (Hall v Hv Ea).
    - intros w Hw Ew. apply tinsert_In in Hw. destruct Hw as [->|Hw]; [|auto].
      rewrite Hip in Ew. rewrite <- Ew in Hva. simpl in Hva. discriminate Hva. }
  set (keep0 := if allocated l then (if (r_expiry (l_rec l) <? now)%Z then AInv else r_ip (l_rec l)) else AInv) in H.
  destruct (avalid (if avalid keep0 && taken hosts t1 l keep0 then AInv else keep0)) eqn:Ek.
  - (* the client's own address is offered: then the client itself holds it *)
    inversion H; subst a. clear H.
    destruct (avalid keep0 && taken hosts t1 l keep0); [discriminate|].
    unfold keep0 in *. destruct (allocated l) eqn:Ea; [|discriminate].
    destruct (r_expiry (l_rec l) <? now)%Z; [discriminate|].
    destruct Hl as [[Hin _]|(_ & Hna & _)]; [|congruence].
    destruct Hh as [_ Hall]. destruct (Hall l Hin eq_refl) as [_ Hne]. contradiction.
  - destruct (allocIPOffer fuel (ordf t1) hosts (the_subnet n1 n2 (l_sub l)) next cid reqIP) as [[a1 nx]| | |] eqn:Ea;
      try discriminate.
    inversion H; subst a1.
    eapply alloc_not_held; [apply Hord|exact Hh1|exact Ea].
Qed.

(* in a restored table every lease is non-free, so any address of it is protected from a client that is not
   one of its holders *)
Lemma restored_held cap n2 rs cid r :
  (forall x, In x rs -> (r_state x =? 2)%Z = true) ->
  In r rs ->
  (forall x, In x rs -> r_ip x = r_ip r -> r_cid x <> cid) ->
  held_by_others (map (restored cap n2) rs) cid (r_ip r).
Proof.
  intros Hst Hin Hc. split.
  - exists (restored cap n2 r). split; [apply in_map; exact Hin|reflexivity].
  - intros w Hw Ew. apply in_map_iff in Hw. destruct Hw as (x & <- & Hx). simpl in *.
    split; [|apply Hc; auto].
    specialize (Hst x Hx). destruct (r_state x =? 0)%Z eqn:E0; auto. lia.
Qed.

Example discover_not_held_nonvacuous :
  exists n1 n2 t',
    newSubnet ex_net1 = Ok n1 /\ newSubnet ex_net2 = Ok n2 /\
    held_by_others (map (restored (fun _ => false) n2) [ex_rec]) [9; 9] (r_ip ex_rec) /\
    (* the other client asks for exactly that address and gets the next free one instead *)
    discover 600 (fun x => x) (fun _ => false) (fun _ => None) n1 n2 AInv 0%Z
             (map (restored (fun _ => false) n2) [ex_rec]) [9; 9] [2; 0; 0; 0; 0; 9] (r_ip ex_rec)
    = Ok (ROffer (A4 3232235521), t').
Proof.
  destruct (newSubnet ex_net1) as [n1| | |] eqn:E1; try (vm_compute in E1; discriminate).
  destruct (newSubnet ex_net2) as [n2| | |] eqn:E2; try (vm_compute in E2; discriminate).
  exists n1, n2. eexists. vm_compute in E1. vm_compute in E2. inversion E1; inversion E2; subst.
  split; [reflexivity|]. split; [reflexivity|]. split.
  - apply restored_held.
    + intros x [<-|[]]. reflexivity.
    + left. reflexivity.
    + intros x [<-|[]] _. discriminate.
  - vm_compute. reflexivity.
Qed.
