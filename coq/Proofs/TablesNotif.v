(* Proofs/TablesNotif.v — C06: per-step theorems about the notifications the table model emits. *)
From PV Require Import Base.Prelude Model.Tables Model.TablesKnown Spec.HostTrackingInv Spec.HostTracking
  Proofs.Tables Proofs.TablesRefine.
Open Scope N_scope.

(* the notifications a step appends to the (drained) channel *)
Definition emitted (c : cfg) (s : state) (o : op) : list notif := chan (fst (step c (set_chan [] s) o)).

(* Parse followed by Notify *)
Definition frame_unit (c : cfg) (s : state) (f : fsum) (now : Z) : state :=
  fst (step c (fst (step c s (Rx f now))) Notify).

(* ---- repeat traffic is quiet ---- *)
Theorem quiet_proof c s f now m k h :
  host_event c f = Some (m, k) -> hlookup k (hosts s) = Some h ->
  h_mac h = m -> h_online h = true -> h_dirty h = false ->
  chan (frame_unit c s f now) = chan s /\
  (forall k', abs (frame_unit c s f now) k' = if ip_eqb k k' then Some {| a_mac := m; a_online := true; a_last := now |} else abs s k').
Proof.
  intros HE L M O D.
  set (fr := {| fr_host := Some k; fr_online := false; fr_dhcp4 := f_dhcp4 f; fr_src := f_src f |}).
  assert (R : rx c f now s = Ok (upd_host k (set_last now) s, fr)).
  { unfold rx. rewrite HE. unfold find_or_create. rewrite L, M, N.eqb_refl. cbn [bind fst].
    assert (HO : host_online k (upd_host k (set_last now) s) = true).
    { unfold host_online, upd_host. cbn [hosts set_hosts]. rewrite hlookup_hupd, ip_eqb_refl, L. exact O. }
    rewrite HO. reflexivity. }
  unfold frame_unit. cbn [step]. rewrite R. cbn [fst lastf set_lastf].
  assert (NF : notify fr (set_lastf (Some fr) (upd_host k (set_last now) s)) = set_lastf (Some fr) (upd_host k (set_last now) s)).
  { unfold notify, fr. cbn [fr_host fr_online]. unfold notify_host, set_lastf, upd_host. cbn [hosts set_hosts].
    rewrite hlookup_hupd, ip_eqb_refl, L. cbn [option_map h_dirty set_last]. rewrite D. reflexivity. }
  rewrite NF. split; [reflexivity|]. intros k'. unfold abs, set_lastf, upd_host. cbn [hosts set_hosts]. rewrite hlookup_hupd.
  destruct (ip_eqb k k') eqn:E; auto. ipeq. subst k'. rewrite L. unfold aof. cbn. rewrite M, O. reflexivity.
Qed.

(* ---- the repaired defect (fix of session.go notify): the witness history of the former finding
   c06-duplicate-dhcp-path-offline-offer now yields ONE notification ---- *)
Definition dup_history : list op :=
  [ DHCPv4Update ex_mac1 (IP4 3232235521) (named 1) 10;
    Rx {| f_src := ex_mac1; f_class := FIP4; f_ip := IP4 0; f_arpmac := 0; f_dhcp4 := true |} 20; Notify; Drain;
    Purge 400 [IP4 3232235521; IP4 3232235531; IP4 3232235649]; Drain;
    NameUpdate KMdns (IP4 3232235521) (named 2);
    Rx {| f_src := ex_mac1; f_class := FIP4; f_ip := IP4 0; f_arpmac := 0; f_dhcp4 := true |} 410 ].

Lemma dup_fixed :
  let s := run std_cfg ex_s0 dup_history in
  known_C06_dup s = true /\ chan s = [] /\
  exists n, chan (fst (step std_cfg s Notify)) = [n] /\ nt_ip n = IP4 3232235521 /\ nt_online n = false /\
            n_mdns (nt_names n) = named 2.
Proof.
  cbv zeta. split; [vm_compute; reflexivity|]. split; [vm_compute; reflexivity|].
  eexists. split; [vm_compute; reflexivity|]. repeat split; reflexivity.
Qed.

(* ------------------------------------------------------------------ *)
(* shape of what Notify and purge append to the channel *)

Lemma to_notif_fields h s : nt_ip (to_notif h s) = h_ip h /\ nt_mac (to_notif h s) = h_mac h /\ nt_online (to_notif h s) = h_online h.
Proof. unfold to_notif. destruct (find_mac (h_mac h) (macs s)); repeat split; reflexivity. Qed.

Lemma make_offline_chan v s h0 : hlookup v (hosts s) = Some h0 -> (List.length (chan s) < chan_cap)%nat ->
  exists n, chan (make_offline v s) = chan s ++ [n] /\ nt_ip n = h_ip h0 /\ nt_mac n = h_mac h0 /\ nt_online n = false.
Proof.
  intros L C. unfold make_offline. rewrite L.
  assert (LT : Nat.ltb (List.length (chan s)) chan_cap = true) by (apply Nat.ltb_lt; exact C).
  cbn [chan upd_mac set_macs upd_host set_hosts]. rewrite LT. unfold send. cbn [chan upd_mac set_macs upd_host set_hosts]. rewrite LT.
  eexists. split; [reflexivity|].
  match goal with |- context [to_notif ?h ?st] => destruct (to_notif_fields h st) as (A & B & C0) end.
  rewrite A, B, C0. repeat split; reflexivity.
Qed.

Lemma fold_mo_lookup (l : list ip) k' : forall s,
  hlookup k' (hosts (fold_left (fun st v => make_offline v st) l s)) =
  if existsb (fun v => ip_eqb v k') l then option_map offl (hlookup k' (hosts s)) else hlookup k' (hosts s).
Proof.
  induction l as [|v r IH]; simpl; auto. intros s. rewrite IH. rewrite make_offline_lookup. fold offl.
  destruct (ip_eqb v k'); simpl; auto.
  destruct (existsb _ r); auto. destruct (hlookup k' (hosts s)); reflexivity.
Qed.

Lemma fold_mo_chan (l : list ip) : forall s, InvP s ->
  (forall v, In v l -> hlookup v (hosts s) <> None) ->
  (List.length (chan s) + List.length l < chan_cap)%nat ->
  exists ns, chan (fold_left (fun st v => make_offline v st) l s) = chan s ++ ns /\
             map nt_ip ns = l /\ Forall (fun n => nt_online n = false) ns /\
             Forall (fun n => exists h, hlookup (nt_ip n) (hosts s) = Some h /\ nt_mac n = h_mac h) ns.
Proof.
  induction l as [|v r IH]; simpl; intros s I P C.
  - exists []. rewrite app_nil_r. repeat split; constructor.
  - destruct (hlookup v (hosts s)) as [h0|] eqn:L; [|exfalso; apply (P v); auto].
    destruct (make_offline_chan v s h0 L) as (n & CH & N1 & N2 & N3); [lia|].
    destruct (InvS_host _ _ _ (proj1 I) L) as (Hip & _).
    destruct (IH (make_offline v s)) as (ns & CH' & M' & F1 & F2).
    + apply make_offline_InvP. exact I.
    + intros v' Iv'. rewrite make_offline_lookup. destruct (ip_eqb v v'); [|apply P; auto].
      destruct (hlookup v' (hosts s)) eqn:L'; [discriminate|]. exfalso. apply (P v'); auto.
    + rewrite CH, app_length. simpl. lia.
    + exists (n :: ns). rewrite CH', CH, <- app_assoc. simpl. repeat split; auto.
      * rewrite M', N1, Hip. reflexivity.
      * constructor; [exists h0; rewrite N1, Hip; auto|].
        eapply Forall_impl; [|exact F2]. intros x (h & Lx & Mx). rewrite make_offline_lookup in Lx.
        destruct (ip_eqb v (nt_ip x)); [|exists h; auto].
        destruct (hlookup (nt_ip x) (hosts s)) as [h1|]; [|discriminate]. simpl in Lx. inversion Lx; subst h.
        exists h1. split; auto.
Qed.

Lemma filter_length_le' {A} (P : A -> bool) l : (List.length (filter P l) <= List.length l)%nat.
Proof. induction l as [|x r IH]; simpl; auto. destruct (P x); simpl; lia. Qed.

(* Notify for a host with a notification pending: the offline notifications of OTHER addresses of the
   same MAC first, then exactly one notification of the host itself, carrying its tracked online flag *)
Theorem notify_host_shape k fl s h :
  InvP s -> hlookup k (hosts s) = Some h -> h_dirty h = true ->
  (List.length (chan s) + List.length (mac_hosts (h_mac h) s) < chan_cap)%nat ->
  exists offs n,
    chan (notify_host k fl s) = chan s ++ offs ++ [n] /\
    nt_ip n = k /\ nt_online n = h_online h /\ nt_mac n = h_mac h /\
    Forall (fun x => nt_online x = false /\ nt_ip x <> k /\ nt_mac x = h_mac h) offs /\
    NoDup (map nt_ip offs).
Proof.
  intros I L D C. destruct (InvS_host _ _ _ (proj1 I) L) as (Hip & e & F & Ik).
  unfold notify_host. rewrite L, D. cbn [negb].
  set (l := if fl && is4 (h_ip h)
            then filter (fun v => negb (ip_eqb v k) &&
                                  match hlookup v (hosts s) with Some x => negb (h_online x) && h_dirty x | None => false end)
                        (mac_hosts (h_mac h) s) else []).
  assert (LP : forall v, In v l -> In v (mac_hosts (h_mac h) s) /\ v <> k /\
               exists x, hlookup v (hosts s) = Some x /\ h_online x = false).
  { intros v Iv. unfold l in Iv. destruct (fl && is4 (h_ip h)); [|destruct Iv]. apply filter_In in Iv.
    destruct Iv as [Iv Pv]. split; auto. apply andb_prop in Pv. destruct Pv as [NE Pv].
    apply negb_true_iff in NE. ipeq. split; auto.
    destruct (hlookup v (hosts s)) as [x|]; [|discriminate].
    exists x. split; auto. apply andb_prop in Pv. destruct Pv as [Pv _]. apply negb_true_iff in Pv. exact Pv. }
  assert (LL : (List.length l <= List.length (mac_hosts (h_mac h) s))%nat).
  { unfold l. destruct (fl && is4 (h_ip h)); [apply filter_length_le'|simpl; lia]. }
  assert (LND : NoDup l).
  { unfold l. destruct (fl && is4 (h_ip h)); [|constructor]. apply NoDup_filter.
    unfold mac_hosts. rewrite F. apply (inv_listed_once s (InvP_Inv s I) e). apply find_mac_Some in F. apply F. }
  assert (NK : ~ In k l).
  { intros Ik'. destruct (LP k Ik') as (_ & N & _). congruence. }
  destruct (fold_mo_chan l s I) as (ns & CH & MI & F1 & F2).
  { intros v Iv. destruct (LP v Iv) as (_ & _ & x & Lx & _). congruence. }
  { lia. }
  set (s1 := fold_left (fun st v => make_offline v st) l s) in *.
  assert (L1 : hlookup k (hosts s1) = Some h).
  { unfold s1. rewrite fold_mo_lookup. destruct (existsb (fun v => ip_eqb v k) l) eqn:EX; auto.
    apply existsb_exists in EX. destruct EX as (v & Iv & E). ipeq. subst v. contradiction. }
  rewrite L1. unfold send. cbn [chan upd_host set_hosts].
  assert (LT : Nat.ltb (List.length (chan s1)) chan_cap = true).
  { apply Nat.ltb_lt. rewrite CH, app_length. rewrite <- MI in LL. rewrite map_length in LL. lia. }
  rewrite LT. cbn [chan set_chan]. exists ns. eexists. split; [rewrite CH, <- app_assoc; reflexivity|].
  match goal with |- context [to_notif ?h0 ?st] => destruct (to_notif_fields h0 st) as (A & B & C0) end.
  rewrite A, B, C0. repeat split; auto.
  - apply Forall_forall. intros x Ix. rewrite Forall_forall in F1, F2.
    assert (Ixl : In (nt_ip x) l) by (rewrite <- MI; apply in_map; exact Ix).
    split; [apply F1; auto|]. split; [intros E; rewrite E in Ixl; contradiction|].
    destruct (F2 x Ix) as (hx & Lx & Mx). rewrite Mx.
    destruct (LP _ Ixl) as (Im & _). unfold mac_hosts in Im. rewrite F in Im.
    destruct (InvS_listed _ _ _ _ (proj1 I) F Im) as (h2 & L2 & M2 & _). rewrite Lx in L2. inversion L2; subst. exact M2.
  - rewrite MI. exact LND.
Qed.

(* the Notify op on a frame whose host has a notification pending *)
Theorem notify_once_proof c s fr k h :
  Inv s -> lastf s = Some fr -> fr_host fr = Some k ->
  hlookup k (hosts s) = Some h -> h_dirty h = true ->
  (List.length (chan s) + List.length (mac_hosts (h_mac h) s) < chan_cap)%nat ->
  exists offs n,
    chan (fst (step c s Notify)) = chan s ++ offs ++ [n] /\
    nt_ip n = k /\ nt_online n = h_online h /\ nt_mac n = h_mac h /\
    Forall (fun x => nt_online x = false /\ nt_ip x <> k /\ nt_mac x = h_mac h) offs /\
    NoDup (map nt_ip offs).
Proof.
  intros I LF FH L D C. cbn [step]. rewrite LF. cbn [fst]. unfold notify. rewrite FH.
  apply notify_host_shape; auto. apply Inv_InvP. exact I.
Qed.

(* the DHCP path of Notify: a frame without host, classified DHCPv4, for a MAC with a recorded offer *)
Theorem notify_dhcp_path_once_proof c s fr e h :
  Inv s -> lastf s = Some fr -> fr_host fr = None -> fr_dhcp4 fr = true ->
  find_mac (fr_src fr) (macs s) = Some e -> is_valid (m_offer e) = true ->
  hlookup (m_offer e) (hosts s) = Some h -> h_dirty h = true ->
  (List.length (chan s) + List.length (mac_hosts (h_mac h) s) < chan_cap)%nat ->
  exists offs n,
    chan (fst (step c s Notify)) = chan s ++ offs ++ [n] /\
    nt_ip n = m_offer e /\ nt_online n = h_online h /\ nt_mac n = h_mac h /\
    Forall (fun x => nt_online x = false /\ nt_ip x <> m_offer e /\ nt_mac x = h_mac h) offs /\
    NoDup (map nt_ip offs).
Proof.
  intros I LF FH DH FM V L D C. cbn [step]. rewrite LF. cbn [fst]. unfold notify. rewrite FH, DH, FM, V, L. cbn [negb].
  apply notify_host_shape; auto. apply Inv_InvP. exact I.
Qed.

(* Parse of a frame from (m,k) that is not the MAC's current online address leaves exactly that situation *)
Theorem rx_transition_proof c s f now m k :
  Inv s -> Inv4 s -> host_event c f = Some (m, k) ->
  (match abs s k with Some e => (a_mac e =? m) && a_online e | None => false end) = false ->
  let s1 := fst (step c s (Rx f now)) in
  exists fr h, lastf s1 = Some fr /\ fr_host fr = Some k /\ fr_online fr = true /\
               hlookup k (hosts s1) = Some h /\ h_mac h = m /\ h_online h = true /\ h_dirty h = true.
Proof.
  intros I I4 HE NC. pose proof (Inv_InvP s I) as IP.
  destruct (find_or_create_total m k now s IP) as ([s0 b] & F).
  pose proof (find_or_create_InvR _ _ _ _ _ _ F (conj IP I4)) as [IP0 I40].
  pose proof (find_or_create_char _ _ _ _ _ _ F k) as CH. rewrite ip_eqb_refl in CH.
  pose proof (foc_current m k now s) as CUR. rewrite NC in CUR.
  set (h0 := match hlookup k (hosts s) with
             | Some h => if h_mac h =? m then set_last now h else new_host m k now
             | None => new_host m k now end) in *.
  assert (M0 : h_mac h0 = m).
  { unfold h0. destruct (hlookup k (hosts s)) as [h|]; [destruct (h_mac h =? m) eqn:EM; ipeq; auto|]; reflexivity. }
  cbn zeta. cbn [step]. unfold rx. rewrite HE, F. cbn [bind fst].
  unfold host_online. rewrite CH, CUR. cbn [negb fst lastf set_lastf].
  destruct (InvS_host _ _ _ (proj1 IP0) CH) as (_ & e & Fe & _).
  destruct (online_transition_char k s0 h0 e IP0 CH CUR Fe) as (LK & _).
  eexists. exists (set_dirty true (set_online true h0)). repeat split; auto.
  cbn [hosts set_lastf]. rewrite LK, ip_eqb_refl. reflexivity.
Qed.

(* ---- purge ---- *)
Lemma delete_host_chan k s : chan (delete_host k s) = chan s.
Proof.
  unfold delete_host. destruct (hlookup k (hosts s)); auto.
  unfold clear_lastf.
  match goal with |- chan (match lastf ?x with _ => _ end) = _ => set (s3 := x) end.
  assert (E : chan s3 = chan s) by (unfold s3; destruct (mac_hosts _ _); reflexivity).
  destruct (lastf s3) as [f|]; auto. destruct (fr_host f); auto. destruct (ip_eqb i k); auto.
Qed.

Lemma fold_delete_chan (l : list host) : forall s, chan (fold_left (fun st h => delete_host (h_ip h) st) l s) = chan s.
Proof. induction l as [|h r IH]; simpl; auto. intros s. rewrite IH. apply delete_host_chan. Qed.

Lemma fold_left_map_mo (l : list host) : forall s,
  fold_left (fun st h => make_offline (h_ip h) st) l s = fold_left (fun st v => make_offline v st) (map h_ip l) s.
Proof. induction l as [|h r IH]; simpl; auto. Qed.

Lemma snapshot_length order s : (List.length (snapshot order s) <= List.length order)%nat.
Proof.
  unfold snapshot. induction order as [|k r IH]; simpl; auto.
  rewrite app_length. destruct (hlookup k (hosts s)); simpl; lia.
Qed.

Definition aged (c : cfg) (now : Z) (h : host) : bool := h_online h && (h_last h <? now - offline_dl c)%Z.

(* a purge appends exactly one offline notification per host that ages out, in walk order *)
Theorem purge_shape_proof c now order s :
  Inv s -> (List.length (chan s) + List.length order < chan_cap)%nat ->
  exists ns, chan (fst (step c s (Purge now order))) = chan s ++ ns /\
             map nt_ip ns = map h_ip (filter (aged c now) (snapshot order s)) /\
             Forall (fun n => nt_online n = false) ns.
Proof.
  intros I C. pose proof (Inv_InvP s I) as IP. cbn [step fst]. unfold purge.
  rewrite fold_delete_chan, fold_left_map_mo.
  fold (aged c now). set (off := filter (aged c now) (snapshot order s)).
  destruct (fold_mo_chan (map h_ip off) s IP) as (ns & CH & MI & F1 & _).
  - intros v Iv. apply in_map_iff in Iv. destruct Iv as (h & <- & Ih). unfold off in Ih.
    apply filter_In in Ih. destruct Ih as [Ih _]. unfold snapshot in Ih. apply in_flat_map in Ih.
    destruct Ih as (k2 & _ & Ih). destruct (hlookup k2 (hosts s)) as [h2|] eqn:L2; [|destruct Ih].
    destruct Ih as [<-|[]]. destruct (InvS_host _ _ _ (proj1 IP) L2) as (-> & _). congruence.
  - rewrite map_length. unfold off. pose proof (filter_length_le' (aged c now) (snapshot order s)).
    pose proof (snapshot_length order s). lia.
  - exists ns. auto.
Qed.
