(* Proofs/LocksSound.v — soundness of the lockset analysis for the interleaving
   semantics of Model/Locks.v, for ANY operation table whose templates are
   balanced ([tmpl_bal]) and lock-ordered:

   [lockset_sound]: in every reachable state, if two distinct threads are both
   about to access the same location and one of them writes (a data race of
   the model), then the static analysis reports that field for their two
   operations ([racy_fields]).  Contrapositive: operation pairs with no
   reported field never race, in any interleaving, on any rows.

   Ingredients: mutual exclusion of the lock semantics ([mutex_reachable]),
   the position invariant tying a thread's dynamic held set to the static walk
   of its template ([pos_reachable]), and the correspondence between the
   accesses of an instantiated body and of its template ([aaccs_body]). *)
From PV Require Import Base.Prelude Model.Locks Proofs.Locks.
From Coq Require Import Bool Arith Lia.
Open Scope nat_scope.

Lemma field_eqb_eq : forall a b, field_eqb a b = true <-> a = b.
Proof.
  intros a b; split.
  - destruct a, b; cbv; intro H; try reflexivity; discriminate H.
  - intros ->; destruct b; reflexivity.
Qed.

Lemma mode_eqb_true : forall a b, mode_eqb a b = true -> a = b.
Proof. destruct a, b; cbn; congruence. Qed.

Section Sound.
Variable op : Type.
Variable template : op -> tmpl op.
Notation body := (body op template).
Notation thread := (thread op).
Notation state := (state op).
Notation step := (step op template).
Notation reachable := (reachable op template).

(* ---------- list plumbing ---------- *)

Lemma nth_set_same : forall (l : list thread) i t t0, nth_error l i = Some t0 ->
  nth_error (set_thread op i t l) i = Some t.
Proof.
  induction l as [|x l IH]; intros i t t0 H; destruct i; cbn in *; try discriminate; auto;
    try (eapply IH; eauto).
Qed.

Lemma nth_set_other : forall (l : list thread) i j t, i <> j ->
  nth_error (set_thread op i t l) j = nth_error l j.
Proof.
  induction l as [|x l IH]; intros i j t H; destruct i, j; cbn; auto; try congruence;
    try (apply IH; congruence).
Qed.

Lemma set_thread_length : forall (l : list thread) i t, length (set_thread op i t l) = length l.
Proof. induction l as [|x l IH]; intros [|i] t; cbn; auto. Qed.

Lemma others_iff : forall (l : list thread) i t,
  In t (others i l) <-> exists j, j <> i /\ nth_error l j = Some t.
Proof.
  induction l as [|x l IH]; intros i t; cbn.
  - destruct i; split; [contradiction| intros [j [_ H]]; destruct j; discriminate
                       |contradiction| intros [j [_ H]]; destruct j; discriminate].
  - destruct i.
    + split.
      * intro H. apply In_nth_error in H as [j Hj]. exists (S j). split; [lia|exact Hj].
      * intros [j [Hne Hj]]. destruct j; [congruence|]. cbn in Hj. eapply nth_error_In; eauto.
    + split.
      * intros [<-|H]; [exists 0; split; [lia|reflexivity]|].
        apply IH in H as [j [Hne Hj]]. exists (S j). split; [lia|exact Hj].
      * intros [j [Hne Hj]]. destruct j; [left; cbn in Hj; congruence|].
        right. apply IH. exists j. split; [lia|exact Hj].
Qed.

(* ---------- what a step does to the thread list ---------- *)

Definition adv (s : state) (t : thread) (a : action op) (r : list (action op)) : thread :=
  match a with
  | Acq _ l m => with_held op t ((l, m) :: held op t) r
  | Rel _ l => with_held op t (remove_lock l (held op t)) r
  | ExitIfClosed _ c => if chan_closed op s c then with_rest op t [] else with_rest op t r
  | ExitIfFlag _ x => if flag_set op s x then with_rest op t [] else with_rest op t r
  | Again _ => with_rest op t (body (top op t) (trows op t))
  | Once _ x => if flag_set op s x then with_held op t [] [] else with_rest op t r
  | _ => with_rest op t r
  end.

Lemma step_threads : forall s i s', step s i = Some s' ->
  threads op s' = threads op s \/
  exists t a r, nth_error (threads op s) i = Some t /\ rest op t = a :: r /\
    (forall l m, a = Acq op l m -> can_acquire op (threads op s) i t l m = true) /\
    (threads op s' = set_thread op i (adv s t a r) (threads op s) \/
     exists o row, a = Spawn op o row /\
       threads op s' = set_thread op i (adv s t a r) (threads op s) ++ [start op template o [row]]).
Proof.
  intros s i s' H. unfold Locks.step in H.
  destruct (panicked op s); [discriminate|].
  destruct (nth_error (threads op s) i) as [t|] eqn:Hn; [|discriminate].
  destruct (rest op t) as [|a r] eqn:Hr; [discriminate|].
  destruct a.
  - destruct (can_acquire op (threads op s) i t l m) eqn:Hc; [|discriminate]. inversion H; subst.
    right. exists t, (Acq op l m), r. repeat split; auto. intros l0 m0 E; inversion E; subst; auto.
  - inversion H; subst. right. exists t, (Rel op l), r. repeat split; auto; intros; discriminate.
  - inversion H; subst. right. exists t, (Rd op x), r. repeat split; auto; intros; discriminate.
  - inversion H; subst. right. exists t, (Wr op x), r. repeat split; auto; intros; discriminate.
  - inversion H; subst. right. exists t, (ARd op x), r. repeat split; auto; intros; discriminate.
  - inversion H; subst. right. exists t, (AWr op x), r. repeat split; auto; intros; discriminate.
  - destruct (chan_closed op s c); inversion H; subst; [left; reflexivity|].
    right. exists t, (Send op c), r. repeat split; auto; intros; discriminate.
  - inversion H; subst. right. exists t, (LenCap op c), r. repeat split; auto; intros; discriminate.
  - destruct (chan_closed op s c); inversion H; subst; [left; reflexivity|].
    right. exists t, (CloseCh op c), r. repeat split; auto; intros; discriminate.
  - inversion H; subst. right. exists t, (Spawn op o r0), r. repeat split; auto; [intros; discriminate|].
    right. exists o, r0. split; auto.
  - right. exists t, (ExitIfClosed op c), r. repeat split; auto; [intros; discriminate|].
    left. unfold adv. destruct (chan_closed op s c); inversion H; subst; reflexivity.
  - right. exists t, (ExitIfFlag op x), r. repeat split; auto; [intros; discriminate|].
    left. unfold adv. destruct (flag_set op s x); inversion H; subst; reflexivity.
  - inversion H; subst. right. exists t, (SetFlag op x), r. repeat split; auto; intros; discriminate.
  - inversion H; subst. right. exists t, (Again op), r. repeat split; auto; intros; discriminate.
  - right. exists t, (Once op x), r. repeat split; auto; [intros; discriminate|].
    left. unfold adv. destruct (flag_set op s x); inversion H; subst; reflexivity.
  - inversion H; subst. right. exists t, (Wake op c), r. repeat split; auto; intros; discriminate.
  - destruct (flag_set op s x); [|destruct (chan_closed op s c)]; inversion H; subst; try (left; reflexivity);
      right; exists t, (SendIfOpen op x c), r; repeat split; auto; intros; discriminate.
  - inversion H; subst. right. exists t, (Recv op c), r. repeat split; auto; intros; discriminate.
Qed.

(* origin of every thread of the successor state *)
Lemma step_origin : forall s i s', step s i = Some s' ->
  forall j tj', nth_error (threads op s') j = Some tj' ->
    nth_error (threads op s) j = Some tj' \/
    (j = i /\ exists t a r, nth_error (threads op s) i = Some t /\ rest op t = a :: r /\ tj' = adv s t a r /\
       (forall l m, a = Acq op l m -> can_acquire op (threads op s) i t l m = true)) \/
    (exists o row, tj' = start op template o [row] /\ j = length (threads op s) /\
       exists t r, nth_error (threads op s) i = Some t /\ rest op t = Spawn op o row :: r).
Proof.
  intros s i s' H j tj' Hj.
  destruct (step_threads _ _ _ H) as [E | [t [a [r [Hn [Hr [Hacq Hcase]]]]]]].
  - left. rewrite <- E. exact Hj.
  - assert (Hset : forall tj, nth_error (set_thread op i (adv s t a r) (threads op s)) j = Some tj ->
             nth_error (threads op s) j = Some tj \/
             (j = i /\ tj = adv s t a r)).
    { intros tj Hs. destruct (Nat.eq_dec i j) as [<-|Hne].
      - rewrite (nth_set_same _ _ _ _ Hn) in Hs. inversion Hs. right. auto.
      - rewrite nth_set_other in Hs by exact Hne. left. exact Hs. }
    destruct Hcase as [E | [o [row [Ea E]]]].
    + rewrite E in Hj. destruct (Hset _ Hj) as [?|[-> ->]]; [left; auto|].
      right; left. split; auto. exists t, a, r. auto.
    + rewrite E in Hj.
      destruct (lt_dec j (length (set_thread op i (adv s t a r) (threads op s)))) as [Hlt|Hge].
      * rewrite nth_error_app1 in Hj by exact Hlt. destruct (Hset _ Hj) as [?|[-> ->]]; [left; auto|].
        right; left. split; auto. exists t, a, r. auto.
      * rewrite nth_error_app2 in Hj by lia.
        remember (j - length (set_thread op i (adv s t a r) (threads op s))) as k.
        destruct k as [|k]; cbn in Hj; [|destruct k; discriminate].
        inversion Hj; subst tj'. right; right. exists o, row. split; auto.
        rewrite set_thread_length in *. split; [lia|]. exists t, r. subst a. auto.
Qed.

(* ---------- mutual exclusion ---------- *)

Definition mutex_inv (s : state) : Prop :=
  forall i j ti tj l, i <> j ->
    nth_error (threads op s) i = Some ti -> nth_error (threads op s) j = Some tj ->
    holdsW op ti l = true -> holds op tj l = false.

Lemma holds_cons : forall (t : thread) l m r l',
  holds op (with_held op t ((l, m) :: held op t) r) l' = lock_eqb l l' || holds op t l'.
Proof. reflexivity. Qed.
Lemma holdsW_cons : forall (t : thread) l m r l',
  holdsW op (with_held op t ((l, m) :: held op t) r) l' = (lock_eqb l l' && is_W m) || holdsW op t l'.
Proof. reflexivity. Qed.

Lemma existsb_remove_lock : forall (P : lock * mode -> bool) l h,
  existsb P (remove_lock l h) = true -> existsb P h = true.
Proof.
  intros P l h; induction h as [|x h IH]; cbn; auto.
  destruct (lock_eqb (fst x) l); cbn.
  - intro H; rewrite H; apply orb_true_r.
  - intro H. apply orb_true_iff in H as [H|H]; [rewrite H; reflexivity | rewrite (IH H); apply orb_true_r].
Qed.

Lemma adv_holds : forall s (t : thread) a r l',
  holds op (adv s t a r) l' = true ->
  holds op t l' = true \/ exists m, a = Acq op l' m.
Proof.
  intros s t a r l' H. destruct a; unfold adv in H; try (left; exact H).
  - rewrite holds_cons in H. apply orb_true_iff in H as [H|H]; auto.
    apply lock_eqb_eq in H. subst. right. eauto.
  - left. unfold holds in *. cbn in H. eapply existsb_remove_lock; eauto.
  - destruct (chan_closed op s c); left; exact H.
  - destruct (flag_set op s x); left; exact H.
  - destruct (flag_set op s x); [cbn in H; discriminate | left; exact H].
Qed.

Lemma adv_holdsW : forall s (t : thread) a r l',
  holdsW op (adv s t a r) l' = true ->
  holdsW op t l' = true \/ a = Acq op l' MW.
Proof.
  intros s t a r l' H. destruct a; unfold adv in H; try (left; exact H).
  - rewrite holdsW_cons in H. apply orb_true_iff in H as [H|H]; auto.
    apply andb_true_iff in H as [H1 H2]. apply lock_eqb_eq in H1. subst. destruct m; [discriminate|]. auto.
  - left. unfold holdsW in *. cbn in H. eapply existsb_remove_lock; eauto.
  - destruct (chan_closed op s c); left; exact H.
  - destruct (flag_set op s x); left; exact H.
  - destruct (flag_set op s x); [cbn in H; discriminate | left; exact H].
Qed.

Lemma can_acquire_W : forall ts i (t : thread) l j tj,
  can_acquire op ts i t l MW = true -> j <> i -> nth_error ts j = Some tj -> holds op tj l = false.
Proof.
  intros ts i t l j tj H Hne Hj. unfold can_acquire in H. apply andb_true_iff in H as [_ H].
  rewrite forallb_forall in H. specialize (H tj). rewrite negb_true_iff in H. apply H.
  apply others_iff. eauto.
Qed.

Lemma can_acquire_R : forall ts i (t : thread) l j tj,
  can_acquire op ts i t l MR = true -> j <> i -> nth_error ts j = Some tj -> holdsW op tj l = false.
Proof.
  intros ts i t l j tj H Hne Hj. unfold can_acquire in H. apply andb_true_iff in H as [_ H].
  rewrite forallb_forall in H. specialize (H tj).
  assert (In tj (others i ts)) as Hin by (apply others_iff; eauto).
  specialize (H Hin). apply andb_true_iff in H as [H _]. apply negb_true_iff in H. exact H.
Qed.

Lemma holdsW_holds' : forall (t : thread) l, holdsW op t l = true -> holds op t l = true.
Proof.
  intros t l H. unfold holdsW in H. apply existsb_exists in H as [h [Hin Heq]].
  apply andb_true_iff in Heq as [Heq _]. unfold holds. apply existsb_exists. eauto.
Qed.

Lemma start_holds : forall o rows l, holds op (start op template o rows) l = false.
Proof. reflexivity. Qed.
Lemma start_holdsW : forall o rows l, holdsW op (start op template o rows) l = false.
Proof. reflexivity. Qed.

Lemma mutex_step : forall s i s', mutex_inv s -> step s i = Some s' -> mutex_inv s'.
Proof.
  intros s i s' Hinv Hstep a b ta tb l Hne Ha Hb HW.
  destruct (holds op tb l) eqn:Hh; [exfalso|reflexivity].
  destruct (step_origin _ _ _ Hstep _ _ Ha) as [Oa | [[-> [t [act [r [Hn [Hr [-> Hacq]]]]]]] | [o [row [-> _]]]]];
  destruct (step_origin _ _ _ Hstep _ _ Hb) as [Ob | [[-> [t' [act' [r' [Hn' [Hr' [-> Hacq']]]]]]] | [o' [row' [-> _]]]]];
    try (rewrite start_holds in Hh; discriminate); try (rewrite start_holdsW in HW; discriminate).
  - (* both unchanged *) rewrite (Hinv _ _ _ _ _ Hne Oa Ob HW) in Hh. discriminate.
  - (* a unchanged, b advanced *)
    destruct (adv_holds _ _ _ _ _ Hh) as [Hh'|[m Eact]]; [|subst act'].
    + rewrite (Hinv _ _ _ _ _ Hne Oa Hn' HW) in Hh'. discriminate.
    + specialize (Hacq' l m eq_refl). destruct m.
      * rewrite (can_acquire_R _ _ _ _ _ _ Hacq' Hne Oa) in HW. discriminate.
      * apply holdsW_holds' in HW. rewrite (can_acquire_W _ _ _ _ _ _ Hacq' Hne Oa) in HW. discriminate.
  - (* a advanced, b unchanged *)
    destruct (adv_holdsW _ _ _ _ _ HW) as [HW'|Eact]; [|subst act].
    + assert (i <> b) as Hne' by congruence.
      rewrite (Hinv _ _ _ _ _ Hne' Hn Ob HW') in Hh. discriminate.
    + specialize (Hacq l MW eq_refl).
      assert (b <> i) as Hne' by congruence.
      rewrite (can_acquire_W _ _ _ _ _ _ Hacq Hne' Ob) in Hh. discriminate.
  - (* both advanced: same index *) congruence.
Qed.

Lemma mutex_init : forall l, mutex_inv (init op template l).
Proof.
  intros l i j ti tj lk _ Hi _ HW. unfold init in Hi; cbn in Hi.
  apply nth_error_In in Hi. apply in_map_iff in Hi as [[o rows] [<- _]].
  rewrite start_holdsW in HW. discriminate.
Qed.

Lemma mutex_reachable : forall s0 s, mutex_inv s0 -> reachable s0 s -> mutex_inv s.
Proof. intros s0 s H0 Hr; induction Hr; eauto using mutex_step. Qed.

(* ---------- position invariant ---------- *)

Fixpoint awalk (h : list (lock * mode)) (acts : list (action op)) : list (lock * mode) :=
  match acts with
  | [] => h
  | Acq _ l m :: r => awalk ((l, m) :: h) r
  | Rel _ l :: r => awalk (remove_lock l h) r
  | _ :: r => awalk h r
  end.

Lemma awalk_app : forall a b h, awalk h (a ++ b) = awalk (awalk h a) b.
Proof. induction a as [|x a IH]; intros b h; cbn; auto. destruct x; auto. Qed.

Definition pos_ok (t : thread) : Prop :=
  rest op t = [] \/
  exists done, body (top op t) (trows op t) = done ++ rest op t /\ held op t = awalk [] done.

Definition pos_inv (s : state) : Prop := Forall pos_ok (threads op s).

Lemma pos_start : forall o rows, pos_ok (start op template o rows).
Proof. intros. right. exists []. split; reflexivity. Qed.

Variable rk : lock -> nat.
Hypothesis Hord : forall o rows, ordered op rk [] (body o rows).

Lemma pos_adv : forall s (t : thread) a r,
  thread_ok op rk t -> pos_ok t -> rest op t = a :: r -> pos_ok (adv s t a r).
Proof.
  intros s t a r Hok Hpos Hr. destruct Hpos as [E|[done [Hb Hh]]]; [congruence|].
  rewrite Hr in Hb.
  assert (Hnext : forall t', top op t' = top op t -> trows op t' = trows op t -> rest op t' = r ->
            held op t' = awalk (held op t) [a] -> pos_ok t').
  { intros t' Ht Hw Hr' Hh'. right. exists (done ++ [a]). rewrite Ht, Hw, Hr', <- app_assoc. split; [exact Hb|].
    rewrite awalk_app, <- Hh. exact Hh'. }
  destruct a; cbn; try (apply Hnext; reflexivity).
  - destruct (chan_closed op s c); [left; reflexivity | apply Hnext; reflexivity].
  - destruct (flag_set op s x); [left; reflexivity | apply Hnext; reflexivity].
  - (* Again: the thread holds nothing (lock-order invariant) and restarts its body *)
    right. exists []. cbn. split; [reflexivity|].
    unfold thread_ok in Hok. rewrite Hr in Hok. cbn in Hok. unfold hlocks in Hok.
    destruct (held op t); [reflexivity|discriminate].
  - (* Once *) destruct (flag_set op s x); [left; reflexivity | apply Hnext; reflexivity].
Qed.

Lemma pos_step : forall s i s', inv op rk s -> pos_inv s -> step s i = Some s' -> pos_inv s'.
Proof.
  intros s i s' Hinv Hpos Hstep. unfold pos_inv. rewrite Forall_forall. intros t' Hin.
  apply In_nth_error in Hin as [j Hj].
  destruct (step_origin _ _ _ Hstep _ _ Hj) as [O | [[-> [t [a [r [Hn [Hr [-> _]]]]]]] | [o [row [-> _]]]]].
  - eapply Forall_nth_error; eauto.
  - apply pos_adv; auto; eapply Forall_nth_error; eauto.
  - apply pos_start.
Qed.

Lemma pos_init : forall l, pos_inv (init op template l).
Proof.
  intros l. unfold pos_inv, init; cbn. rewrite Forall_forall. intros t Ht.
  apply in_map_iff in Ht as [[o rows] [<- _]]. apply pos_start.
Qed.

Lemma pos_reachable : forall s0 s, inv op rk s0 -> pos_inv s0 -> reachable s0 s -> pos_inv s.
Proof.
  intros s0 s Hi Hp Hr. induction Hr; auto.
  apply (pos_step s i s'); [exact (inv_reachable op template rk Hord _ _ Hi Hr) | exact IHHr | exact H].
Qed.

End Sound.

(* ====================================================================== *)
(* Static accesses of an instantiated body = instantiated accesses of the   *)
(* template                                                                 *)
(* ====================================================================== *)

Section Static.
Variable op : Type.
Notation awalk := (awalk op).

Fixpoint aaccs (h : list (lock * mode)) (acts : list (action op)) : list (loc * bool * list (lock * mode)) :=
  match acts with
  | [] => []
  | Acq _ l m :: r => aaccs ((l, m) :: h) r
  | Rel _ l :: r => aaccs (remove_lock l h) r
  | Rd _ x :: r => (x, false, h) :: aaccs h r
  | Wr _ x :: r => (x, true, h) :: aaccs h r
  | _ :: r => aaccs h r
  end.

Lemma aaccs_app : forall a b h, aaccs h (a ++ b) = aaccs h a ++ aaccs (awalk h a) b.
Proof. induction a as [|x a IH]; intros b h; cbn; auto. destruct x; cbn; auto; rewrite IH; reflexivity. Qed.

Lemma aaccs_at_rd : forall done x r h, In (x, false, awalk h done) (aaccs h (done ++ Rd op x :: r)).
Proof. intros. rewrite aaccs_app. apply in_or_app. right. left. reflexivity. Qed.
Lemma aaccs_at_wr : forall done x r h, In (x, true, awalk h done) (aaccs h (done ++ Wr op x :: r)).
Proof. intros. rewrite aaccs_app. apply in_or_app. right. left. reflexivity. Qed.

(* class-level held walk (total) *)
Fixpoint twalk (h : list (lockc * mode)) (acts : list (tact op)) : list (lockc * mode) :=
  match acts with
  | [] => h
  | TAcq c m :: r => twalk ((c, m) :: h) r
  | TRel c :: r => twalk (cremove c h) r
  | _ :: r => twalk h r
  end.

Lemma twalk_app : forall a b h, twalk h (a ++ b) = twalk (twalk h a) b.
Proof. induction a as [|x a IH]; intros b h; cbn; auto. destruct x; auto. Qed.

Lemma taccs_app : forall a b h, taccs op h (a ++ b) = taccs op h a ++ taccs op (twalk h a) b.
Proof. induction a as [|x a IH]; intros b h; cbn; auto. destruct x; cbn; auto; rewrite IH; reflexivity. Qed.

Definition ihl (r : nat) (h : list (lockc * mode)) : list (lock * mode) :=
  map (fun p => (ilock r (fst p), snd p)) h.
Definition iacc (r : nat) (a : field * bool * list (lockc * mode)) : loc * bool * list (lock * mode) :=
  (iloc r (fst (fst a)), snd (fst a), ihl r (snd a)).

Lemma ihl_cremove : forall r c h, remove_lock (ilock r c) (ihl r h) = ihl r (cremove c h).
Proof.
  intros r c h; unfold ihl; induction h as [|x h IH]; cbn; [reflexivity|].
  rewrite lock_eqb_ilock. destruct (lockc_eqb (fst x) c); cbn; [reflexivity | now rewrite IH].
Qed.

Lemma awalk_inst : forall r acts h, awalk (ihl r h) (inst op r acts) = ihl r (twalk h acts).
Proof.
  intros r acts; induction acts as [|a acts IH]; intros h; cbn; [reflexivity|].
  destruct a; cbn; try apply IH.
  - apply (IH ((c, m) :: h)).
  - rewrite ihl_cremove. apply IH.
Qed.

Lemma aaccs_inst : forall r acts h, aaccs (ihl r h) (inst op r acts) = map (iacc r) (taccs op h acts).
Proof.
  intros r acts; induction acts as [|a acts IH]; intros h; cbn; [reflexivity|].
  destruct a; cbn; try apply IH.
  - apply (IH ((c, m) :: h)).
  - rewrite ihl_cremove. apply IH.
  - unfold iacc at 1; cbn. f_equal. apply IH.
  - unfold iacc at 1; cbn. f_equal. apply IH.
Qed.

Lemma held_eqb_eq : forall a b, held_eqb a b = true -> a = b.
Proof.
  induction a as [|x a IH]; intros b H; destruct b as [|y b]; cbn in H; try discriminate; auto.
  unfold held_eqb in H. cbn in H. apply andb_true_iff in H as [Hlen H].
  apply andb_true_iff in H as [Hxy H]. apply andb_true_iff in Hxy as [Hc Hm].
  apply lockc_eqb_eq in Hc. apply mode_eqb_true in Hm.
  destruct x, y; cbn in *; subst. f_equal. apply IH. unfold held_eqb. rewrite Hlen, H. reflexivity.
Qed.

Lemma ihl_singletons : forall r r' h,
  forallb (fun x => negb (per_row_lock (fst x))) h = true -> ihl r h = ihl r' h.
Proof.
  intros r r' h H. unfold ihl. apply map_ext_in. intros x Hx.
  rewrite forallb_forall in H. specialize (H x Hx). unfold ilock.
  destruct (per_row_lock (fst x)); [discriminate|reflexivity].
Qed.

(* balanced template: only singleton locks are held across the per-row section, which restores the held set *)
Definition tmpl_bal (t : tmpl op) : bool :=
  let h1 := twalk [] (t_pre op t) in
  forallb (fun x => negb (per_row_lock (fst x))) h1 && held_eqb h1 (twalk h1 (t_each op t)).

Lemma aaccs_body : forall (t : tmpl op) rows acc, tmpl_bal t = true ->
  In acc (aaccs [] (body_of op t rows)) ->
  exists r a, In a (taccs op [] (flat op t)) /\ acc = iacc r a.
Proof.
  intros t rows acc Hbal Hin. unfold tmpl_bal in Hbal. cbv zeta in Hbal.
  apply andb_true_iff in Hbal as [Hsing Heq]. apply held_eqb_eq in Heq.
  set (h1 := twalk [] (t_pre op t)) in *.
  assert (Hflat : taccs op [] (flat op t) =
                  taccs op [] (t_pre op t) ++ taccs op h1 (t_each op t) ++ taccs op h1 (t_post op t)).
  { unfold flat. rewrite taccs_app. fold h1. rewrite taccs_app. rewrite <- Heq. reflexivity. }
  unfold body_of in Hin. remember (hd 0 rows) as r0. clear Heqr0.
  change (@nil (lock * mode)) with (ihl r0 []) in Hin.
  rewrite aaccs_app, aaccs_inst, awalk_inst in Hin. fold h1 in Hin.
  apply in_app_or in Hin as [Hin|Hin].
  - apply in_map_iff in Hin as [a [<- Ha]]. exists r0, a. split; auto.
    rewrite Hflat. apply in_or_app. left. exact Ha.
  - assert (Hloop : forall rows, In acc (aaccs (ihl r0 h1)
                       (flat_map (fun r => inst op r (t_each op t)) rows ++ inst op r0 (t_post op t))) ->
              exists r a, (In a (taccs op h1 (t_each op t)) \/ In a (taccs op h1 (t_post op t))) /\ acc = iacc r a).
    { clear Hin. induction rows0 as [|r rows0 IH]; cbn [flat_map app]; intro Hin.
      - rewrite aaccs_inst in Hin. apply in_map_iff in Hin as [a [<- Ha]]. exists r0, a. auto.
      - rewrite <- app_assoc, aaccs_app in Hin. rewrite (ihl_singletons r0 r h1 Hsing) in Hin.
        rewrite aaccs_inst, awalk_inst, <- Heq in Hin. rewrite (ihl_singletons r r0 h1 Hsing) in Hin.
        apply in_app_or in Hin as [Hin|Hin].
        + apply in_map_iff in Hin as [a [<- Ha]]. exists r, a. auto.
        + apply IH. exact Hin. }
    destruct (Hloop rows Hin) as [r [a [Ha ->]]]. exists r, a. split; auto.
    rewrite Hflat. apply in_or_app. right. apply in_or_app. exact Ha.
Qed.

End Static.

(* ====================================================================== *)
(* The soundness theorem                                                    *)
(* ====================================================================== *)

Section Main.
Variable op : Type.
Variable template : op -> tmpl op.
Variable rk : lock -> nat.
Hypothesis Hord : forall o rows, ordered op rk [] (body op template o rows).
Hypothesis Hbal : forall o, tmpl_bal op (template o) = true.

Definition next_access (t : thread op) : option (loc * bool) :=
  match rest op t with
  | Rd _ x :: _ => Some (x, false)
  | Wr _ x :: _ => Some (x, true)
  | _ => None
  end.

Lemma access_static : forall (t : thread op) x w, pos_ok op template t -> next_access t = Some (x, w) ->
  exists r a, In a (taccs op [] (flat op (template (top op t)))) /\ (x, w, held op t) = iacc r a.
Proof.
  intros t x w Hpos Hna. unfold next_access in Hna.
  destruct (rest op t) as [|a r] eqn:Hr; [discriminate|].
  destruct Hpos as [E|[done [Hb Hh]]]; [congruence|]. rewrite Hr in Hb.
  destruct a; try discriminate; inversion Hna; subst.
  - eapply aaccs_body; [apply Hbal|]. unfold body in Hb. rewrite Hb, Hh. apply aaccs_at_rd.
  - eapply aaccs_body; [apply Hbal|]. unfold body in Hb. rewrite Hb, Hh. apply aaccs_at_wr.
Qed.

Lemma ihl_In : forall r c m hc, In (c, m) hc -> In (ilock r c, m) (ihl r hc).
Proof. intros r c m hc H. unfold ihl. apply in_map_iff. exists (c, m). auto. Qed.

Lemma In_holds : forall (t : thread op) l m, In (l, m) (held op t) -> holds op t l = true.
Proof.
  intros t l m H. unfold holds. apply existsb_exists. exists (l, m). split; auto. apply lock_eqb_refl.
Qed.
Lemma In_holdsW : forall (t : thread op) l, In (l, MW) (held op t) -> holdsW op t l = true.
Proof.
  intros t l H. unfold holdsW. apply existsb_exists. exists (l, MW). split; auto. cbn. rewrite lock_eqb_refl. reflexivity.
Qed.

(* THE LOCKSET THEOREM: a data race of the model (two distinct threads about to access one location, one of
   them writing) in ANY reachable state of ANY multiset of operations on ANY rows is reported by the static
   analysis of their two templates. *)
Theorem lockset_sound : forall (l : list (op * list nat)) s,
  reachable op template (init op template l) s ->
  forall i j ti tj x w1 w2, i <> j ->
    nth_error (threads op s) i = Some ti -> nth_error (threads op s) j = Some tj ->
    next_access ti = Some (x, w1) -> next_access tj = Some (x, w2) -> w1 || w2 = true ->
    In (fst x) (racy_fields op (template (top op ti)) (template (top op tj))).
Proof.
  intros l s Hr i j ti tj x w1 w2 Hne Hi Hj Ha1 Ha2 Hw.
  assert (Hinv0 : inv op rk (init op template l)) by (apply inv_init; exact Hord).
  pose proof (pos_reachable op template rk Hord _ _ Hinv0 (pos_init op template l) Hr) as Hpos.
  pose proof (mutex_reachable op template _ _ (mutex_init op template l) Hr) as Hmx.
  assert (Hp1 : pos_ok op template ti) by (eapply Forall_nth_error; eauto).
  assert (Hp2 : pos_ok op template tj) by (eapply Forall_nth_error; eauto).
  destruct (access_static _ _ _ Hp1 Ha1) as [r1 [[[f1 b1] hc1] [Hin1 E1]]].
  destruct (access_static _ _ _ Hp2 Ha2) as [r2 [[[f2 b2] hc2] [Hin2 E2]]].
  unfold iacc in E1, E2. cbn in E1, E2.
  injection E1 as Ex1 Eb1 Hh1. injection E2 as Hx Eb2 Hh2. subst x b1 b2.
  assert (Hf : f2 = f1) by (unfold iloc in Hx; inversion Hx; auto). subst f2.
  assert (Hrow : per_row_field f1 = true -> r1 = r2).
  { intro Hp. unfold iloc in Hx. rewrite Hp in Hx. inversion Hx. auto. }
  cbn [fst]. unfold racy_fields. apply in_flat_map. exists (f1, w1, hc1). split; [exact Hin1|].
  apply in_flat_map. exists (f1, w2, hc2). split; [exact Hin2|].
  assert (Hc : conflictb (f1, w1, hc1) (f1, w2, hc2) = true).
  { unfold conflictb; cbn. rewrite Hw. rewrite (proj2 (field_eqb_eq f1 f1) eq_refl). reflexivity. }
  rewrite Hc. cbn [fst snd andb].
  destruct (protectedb f1 hc1 hc2) eqn:Hp; [exfalso|left; reflexivity].
  unfold protectedb in Hp. apply existsb_exists in Hp as [[c1 m1] [Hc1 Hp]].
  apply existsb_exists in Hp as [[c2 m2] [Hc2 Hp]]. cbn [fst snd] in Hp.
  apply andb_true_iff in Hp as [Hp Hsame]. apply andb_true_iff in Hp as [Hceq Hmw].
  apply lockc_eqb_eq in Hceq. subst c2.
  assert (HL : ilock r1 c1 = ilock r2 c1).
  { unfold ilock. destruct (per_row_lock c1) eqn:Hpr; [|reflexivity].
    cbn in Hsame. rewrite (Hrow Hsame). reflexivity. }
  pose proof (ihl_In r1 _ _ _ Hc1) as H1. unfold ihl in H1. rewrite <- Hh1 in H1.
  pose proof (ihl_In r2 _ _ _ Hc2) as H2. unfold ihl in H2. rewrite <- Hh2 in H2. rewrite <- HL in H2.
  apply orb_true_iff in Hmw as [Hm|Hm].
  - destruct m1; [discriminate|]. apply In_holdsW in H1. apply In_holds in H2.
    rewrite (Hmx _ _ _ _ _ Hne Hi Hj H1) in H2. discriminate.
  - destruct m2; [discriminate|]. apply In_holdsW in H2. apply In_holds in H1.
    assert (j <> i) as Hne' by congruence.
    rewrite (Hmx _ _ _ _ _ Hne' Hj Hi H2) in H1. discriminate.
Qed.

End Main.
