(* Proofs/DHCPClauses.v — the clauses of C11 and C12 one by one, each over all histories, and the
   pool scan of allocIPOffer (exhaustion, wrap-around). *)
From PV Require Import Base.Prelude Base.Text Model.DHCP Model.DHCPShow Spec.DHCP Spec.DHCPCheck
  Proofs.DHCP Proofs.DHCPInv Proofs.DHCPReply.
Open Scope list_scope.
Open Scope N_scope.

Section Clauses.
Variables (c : cfg) (h : list ((ip -> nat) * op)) (t : tstep) (m : dmsg) (r : reply).
Hypothesis Hin : In t (trace c (init c) h).
Hypothesis Hm : op_msg (t_op t) = Some m.
Hypothesis Hr : t_reply t = Some r.
Hypothesis Hl : is_lease_reply r = true.

Let b := client_net c (t_pre t) m.
Let se := sess_at c (t_pre t) m.

Lemma reserved_parts : sub_ok c ->
  res_own c (r_yi r) = false /\ res_router c (r_yi r) = false /\ res_network c b (r_yi r) = false /\
  res_broadcast c b (r_yi r) = false /\ res_outside c b (r_yi r) = false /\
  res_tracked_other se (m_chaddr m) (r_yi r) = false.
Proof.
  intros Hok. pose proof (not_reserved_all c h t m r Hok Hin Hm Hr) as R.
  unfold c11_not_reserved, reserved in R. rewrite Hl in R. simpl in R. apply negb_true_iff in R.
  apply orb_false_iff in R as [R R6]. apply orb_false_iff in R as [R R5]. apply orb_false_iff in R as [R R4].
  apply orb_false_iff in R as [R R3]. apply orb_false_iff in R as [R1 R2]. fold b in R3, R4, R5. fold se in R6.
  repeat split; assumption.
Qed.

(* never the host's own address *)
Lemma never_own : r_yi r <> c_hostip c.
Proof.
  destruct (trace_reply c h t r Hin Hr) as [_ [_ G]].
  destruct (good_type _ _ _ _ _ G Hl) as [m' [x [_ [Hx [[[_ [O1 _]] _] _]]]]]. congruence.
Qed.
(* never the router's *)
Lemma never_router : r_yi r <> c_routerip c.
Proof.
  destruct (trace_reply c h t r Hin Hr) as [_ [_ G]].
  destruct (good_type _ _ _ _ _ G Hl) as [m' [x [_ [Hx [[[_ [_ O2]] _] _]]]]]. congruence.
Qed.
(* never the network address of the client's subnet *)
Lemma never_network : sub_ok c -> r_yi r <> want_lan c b.
Proof. intros Hok E. destruct (reserved_parts Hok) as [_ [_ [R _]]]. unfold res_network in R. apply N.eqb_neq in R. contradiction. Qed.
(* never its broadcast address *)
Lemma never_broadcast : sub_ok c -> r_yi r <> want_bcast c b.
Proof. intros Hok E. destruct (reserved_parts Hok) as [_ [_ [_ [R _]]]]. unfold res_broadcast in R. apply N.eqb_neq in R. contradiction. Qed.
(* never an address outside the subnet of the client's capture state at that moment *)
Lemma never_outside : sub_ok c -> want_contains c b (r_yi r) = true.
Proof. intros Hok. destruct (reserved_parts Hok) as [_ [_ [_ [_ [R _]]]]]. unfold res_outside in R. apply negb_false_iff in R. exact R. Qed.
(* never an address the session tracks for a different MAC *)
Lemma never_tracked_other : forall m', sess_find se (r_yi r) = Some m' -> m' = m_chaddr m.
Proof.
  intros m' E. destruct (trace_reply c h t r Hin Hr) as [_ [_ G]].
  destruct (good_type _ _ _ _ _ G Hl) as [m0 [x [Hm0 [Hx [[_ [T _]] _]]]]].
  rewrite Hm in Hm0. inversion Hm0; subst m0. unfold se, sess_at in E. rewrite Hx in E.
  destruct T as [T|T]; rewrite T in E; congruence.
Qed.
(* never an address that is, at that step, acknowledged to a different client id (OFFER and ACK) *)
Lemma never_acked_elsewhere : forall l, In l (tbl (t_post t)) -> l_state l = SAllocated ->
  l_ip l = Some (r_yi r) -> l_cid l = getcid m.
Proof.
  intros l Hl' S I. pose proof (not_acked_elsewhere_all c h t m r Hin Hm Hr) as A.
  unfold c11_not_acked_elsewhere in A. rewrite Hl in A. simpl in A. apply negb_true_iff in A.
  destruct (N.eq_dec (l_cid l) (getcid m)) as [E|E]; auto.
  assert (T : acked_to_other (tbl (t_post t)) (getcid m) (r_yi r) = true)
    by (apply acked_to_other_spec; exists l; auto).
  congruence.
Qed.

(* C12, clause by clause (cfg_ok) *)
Lemma config_parts : cfg_ok c ->
  obeqb (opt 3 r) (ipb (want_router c b)) = true /\ obeqb (opt 6 r) (ipb (want_dns c b)) = true /\
  obeqb (opt 1 r) (ipb (pmask (want_bits c b))) = true /\ obeqb (opt 54 r) (ipb (c_hostip c)) = true /\
  obeqb (opt 51 r) (ipb 14400) = true /\ r_xid r = m_xid m /\ r_chaddr r = m_chaddr m.
Proof.
  intros Hc. destruct (reply_config_any_state c (init c) h t m r Hc Hin Hm Hr) as [C _].
  unfold c12_config in C. rewrite Hl in C. simpl in C. fold b in C.
  apply andb_true_iff in C as [C C7]. apply andb_true_iff in C as [C C6]. apply andb_true_iff in C as [C C5].
  apply andb_true_iff in C as [C C4]. apply andb_true_iff in C as [C C3]. apply andb_true_iff in C as [C1 C2].
  apply N.eqb_eq in C6, C7. auto 10.
Qed.
End Clauses.

(* message type per kind of message: DISCOVER is answered by OFFER or silence, REQUEST by ACK, NAK or
   silence, DECLINE and RELEASE by silence; option 53 carries the type *)
Lemma type_per_message c s h t r :
  In t (trace c s h) -> t_reply t = Some r ->
  match t_op t with
  | ODiscover _ _ => r_type r = ROffer
  | ORequest _ _ => r_type r = RAck \/ r_type r = RNak
  | _ => False
  end.
Proof.
  intros Hin Hr. pose proof (trace_in_step c h s t Hin) as E. rewrite Hr in E.
  destruct (t_op t) as [now m|now m|m|m|x|x|now|k te]; simpl in E.
  - apply discover_shape in E as [x E]. subst r. reflexivity.
  - apply request_shape in E as [E|[x E]]; subst r; auto.
  - pose proof (decline_any c (parse_effect c (t_pre t) m) m) as D. rewrite E in D. discriminate.
  - unfold handleRelease in E. destruct (findOrCreate _ _ _ _). apply pair_equal_spec in E as [_ E]. discriminate.
  - apply pair_equal_spec in E as [_ E]. discriminate.
  - apply pair_equal_spec in E as [_ E]. discriminate.
  - apply pair_equal_spec in E as [_ E]. discriminate.
  - apply pair_equal_spec in E as [_ E]. discriminate.
Qed.

Lemma type_option c t m x b :
  opt 53 (mk_reply c t m x b) = Some [match t with ROffer => 2 | RAck => 5 | RNak => 6 end].
Proof.
  unfold opt, mk_reply. cbn [r_opts]. destruct t.
  - rewrite append_lookup by apply lease_opts_nodup. unfold lease_opts, n_options. destruct b; reflexivity.
  - rewrite append_lookup by apply lease_opts_nodup. unfold lease_opts, n_options. destruct b; reflexivity.
  - reflexivity.
Qed.

(* destination: limited broadcast when the frame had no IP source or the client set the broadcast flag,
   else the client's MAC and IP source *)
Lemma reply_destination c s h t m r :
  In t (trace c s h) -> op_msg (t_op t) = Some m -> t_reply t = Some r ->
  (r_dstmac r, r_dstip r) = if (m_src m =? 0) || m_bflag m then (mac_bcast, ip_bcast) else (m_chaddr m, m_src m).
Proof.
  intros Hin Hm Hr. pose proof (trace_in_step c h s t Hin) as E. rewrite Hr in E.
  apply step_shape in E as [m' [Hm' G]]. rewrite Hm in Hm'. inversion Hm'; subst m'. cbv zeta in G.
  destruct G as [G|[t0 [x [_ G]]]]; subst r; unfold mk_reply; cbn [r_dstmac r_dstip]; unfold reply_dst;
    destruct ((m_src m =? 0) || m_bflag m); reflexivity.
Qed.

(* ---------------------------------------------------------------- *)
(* the pool scan of allocIPOffer *)

Lemma scan_none ch s from bc x :
  scan ch s from bc = None -> from <= x -> x < bc -> avail ch s x = false.
Proof.
  unfold scan. intros H H1 H2. apply (find_none _ _ H x).
  apply in_map_iff. exists (N.to_nat (x - from)). split; [lia|apply in_seq; lia].
Qed.

(* exhaustion: allocIPOffer fails only when NO address of the pool [first, broadcast) is available (and the
   requested one was not taken): no offer rather than a duplicate *)
Theorem alloc_exhausted c ch s l req s2 :
  allocIPOffer c ch s l req = (None, s2) ->
  phase1 c ch s l req = None /\
  forall x, n_first c (l_net2 l) <= x -> x < n_bcast c (l_net2 l) -> avail ch s x = false.
Proof.
  unfold allocIPOffer. destruct (phase1 c ch s l req) eqn:P; [intros H; discriminate|].
  destruct (scan ch s (get_next s (l_net2 l)) (n_bcast c (l_net2 l))); [intros H; discriminate|].
  destruct (scan ch s (n_first c (l_net2 l)) (n_bcast c (l_net2 l))) eqn:S2; [intros H; discriminate|].
  intros _. split; auto. intros x H1 H2. apply (scan_none ch s _ _ x S2 H1 H2).
Qed.

(* an offer of the scan is an available pool address; after the cursor ran out the scan wraps around to
   the first pool address *)
Theorem alloc_offer_available c ch s l req x s2 :
  allocIPOffer c ch s l req = (Some x, s2) -> phase1 c ch s l req = None ->
  avail ch s x = true /\ x < n_bcast c (l_net2 l) /\
  (get_next s (l_net2 l) <= x \/
   (n_first c (l_net2 l) <= x /\ forall y, get_next s (l_net2 l) <= y -> y < n_bcast c (l_net2 l) -> avail ch s y = false)).
Proof.
  unfold allocIPOffer. intros H P. rewrite P in H.
  destruct (scan ch s (get_next s (l_net2 l)) (n_bcast c (l_net2 l))) as [y|] eqn:S1.
  - inversion H; subst. apply scan_spec in S1 as [A [B C]]. auto.
  - destruct (scan ch s (n_first c (l_net2 l)) (n_bcast c (l_net2 l))) as [y|] eqn:S2; [|discriminate].
    inversion H; subst. apply scan_spec in S2 as [A [B C]]. split; auto. split; auto. right. split; auto.
    intros z H1 H2. apply (scan_none ch s _ _ z S1 H1 H2).
Qed.

(* a DISCOVER on an exhausted pool is answered with silence and leaves no lease for that client id *)
Theorem discover_exhausted_silent c ch now s0 m s' :
  handleDiscover c ch now s0 m = (s', None) -> tget (getcid m) (tbl s') = None.
Proof.
  unfold handleDiscover.
  destruct (findOrCreate c s0 (getcid m) (m_chaddr m)) as [s1 l].
  set (l1 := match l_offer (discover_reset now l m) with Some x => _ | None => _ end).
  destruct (l_offer l1); [intros H; apply pair_equal_spec in H as [_ H]; discriminate|].
  destruct (allocIPOffer c ch (put s1 l1) l1 (m_req m)) as [[x|] s2];
    [intros H; apply pair_equal_spec in H as [_ H]; discriminate|].
  intros H. apply pair_equal_spec in H as [H _]. subst s'. cbn [tbl set_tbl].
  destruct (tget (getcid m) (tdel (getcid m) (tbl s2))) as [v|] eqn:T; auto.
  apply tget_in in T as [T1 T2]. apply in_tdel in T1. tauto.
Qed.

(* C12 clauses separately *)
Section C12Clauses.
Variables (c : cfg) (h : list ((ip -> nat) * op)) (t : tstep) (m : dmsg) (r : reply).
Hypothesis Hc : cfg_ok c.
Hypothesis Hin : In t (trace c (init c) h).
Hypothesis Hm : op_msg (t_op t) = Some m.
Hypothesis Hr : t_reply t = Some r.
Hypothesis Hl : is_lease_reply r = true.
Let P := config_parts c h t m r Hin Hm Hr Hl Hc.
Lemma clause_router : obeqb (opt 3 r) (ipb (want_router c (client_net c (t_pre t) m))) = true.
Proof. exact (proj1 P). Qed.
Lemma clause_dns : obeqb (opt 6 r) (ipb (want_dns c (client_net c (t_pre t) m))) = true.
Proof. exact (proj1 (proj2 P)). Qed.
Lemma clause_mask : obeqb (opt 1 r) (ipb (pmask (want_bits c (client_net c (t_pre t) m)))) = true.
Proof. exact (proj1 (proj2 (proj2 P))). Qed.
Lemma clause_server_id : obeqb (opt 54 r) (ipb (c_hostip c)) = true.
Proof. exact (proj1 (proj2 (proj2 (proj2 P)))). Qed.
Lemma clause_lease_time : obeqb (opt 51 r) (ipb 14400) = true.
Proof. exact (proj1 (proj2 (proj2 (proj2 (proj2 P))))). Qed.
Lemma clause_xid : r_xid r = m_xid m.
Proof. exact (proj1 (proj2 (proj2 (proj2 (proj2 (proj2 P)))))). Qed.
Lemma clause_chaddr : r_chaddr r = m_chaddr m.
Proof. exact (proj2 (proj2 (proj2 (proj2 (proj2 (proj2 P)))))). Qed.
End C12Clauses.

(* captured and non-captured clients get different routers and DNS servers (when the configuration's differ) *)
Lemma captured_differs c : c_hostip c <> c_routerip c ->
  want_router c true <> want_router c false /\ (c_dns c <> cloudflare_family1 -> want_dns c true <> want_dns c false).
Proof. intros H. unfold want_router, want_dns. split; auto. Qed.

(* the table of source constants agrees with what the model computes with *)
Example src_table_matches_model : forall c,
  map fst (n_options c true) =
    map src_get ["DHCP4OptionServerIdentifier"; "DHCP4OptionSubnetMask"; "DHCP4OptionRouter"; "DHCP4OptionDomainNameServer";
                 "DHCP4OptionPerformRouterDiscovery"; "DHCP4OptionStaticRoute"; "DHCP4OptionClasslessRouteFormat"] /\
  fst lease_time_opt = src_get "DHCP4OptionIPAddressLeaseTime" /\
  Z.to_N lease_secs = src_get "lease_duration_seconds" /\
  cloudflare_family1 = src_get "DNSv4CloudFlareFamily1" /\
  (forall m x b, opt (src_get "DHCP4OptionDHCPMessageType") (mk_reply c ROffer m x b) = Some [src_get "DHCP4Offer"]) /\
  (forall m x b, opt (src_get "DHCP4OptionDHCPMessageType") (mk_reply c RAck m x b) = Some [src_get "DHCP4ACK"]) /\
  (forall m x b, opt (src_get "DHCP4OptionDHCPMessageType") (mk_reply c RNak m x b) = Some [src_get "DHCP4NAK"]).
Proof.
  intros c. repeat split; try reflexivity; intros m x b;
    [exact (type_option c ROffer m x b)|exact (type_option c RAck m x b)].
Qed.

(* the fixed header of every reply, by field group *)
Lemma header_constants t m :
  let h := reply_header t m in h_op h = 2 /\ h_htype h = 1 /\ h_hlen h = 6 /\ h_hops h = 0 /\ h_cookie h = 1669485411.
Proof. repeat split. Qed.
Lemma header_cleared t m :
  let h := reply_header t m in h_secs h = 0 /\ h_flags h = 0 /\ h_siaddr h = 0 /\ h_giaddr h = 0 /\ h_zeroed h = true.
Proof. repeat split. Qed.
Lemma header_ciaddr t m :
  h_ciaddr (reply_header t m) = match t with RNak => 0 | _ => m_ciaddr m end.
Proof. reflexivity. Qed.
