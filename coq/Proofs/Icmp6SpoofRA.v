(* Proofs/Icmp6SpoofRA.v — the RA decoding model (Model/Icmp6SpoofRA.v) against the
   independent RFC 4861 decoder (Spec/RFC4861.v), for all byte strings. *)
From PV Require Import Base.Prelude Model.Icmp6SpoofRA Spec.RFC4861 Model.Icmp6SpoofKnown.
Open Scope N_scope.

(* ---------------------------------------------------------------- *)
(* finite sweeps over one octet *)

Definition bytes256 : list N := map N.of_nat (seq 0 256).

Lemma byte_sweep (P : N -> bool) : forallb P bytes256 = true -> forall x, x < 256 -> P x = true.
Proof.
  intros H x Hx. rewrite forallb_forall in H. apply H. unfold bytes256.
  apply in_map_iff. exists (N.to_nat x). split; [lia|]. apply in_seq. lia.
Qed.

Lemma bit7 x : x < 256 -> bit_and x 128 = bit x 7.
Proof. intros H. apply (byte_sweep (fun x => Bool.eqb (bit_and x 128) (bit x 7))) in H; [|vm_compute; reflexivity].
  apply Bool.eqb_prop in H. exact H. Qed.
Lemma bit6 x : x < 256 -> bit_and x 64 = bit x 6.
Proof. intros H. apply (byte_sweep (fun x => Bool.eqb (bit_and x 64) (bit x 6))) in H; [|vm_compute; reflexivity].
  apply Bool.eqb_prop in H. exact H. Qed.
Lemma prf_bits x : x < 256 -> N.shiftr (N.land x 24) 3 = (x / 8) mod 4.
Proof. intros H. apply (byte_sweep (fun x => N.shiftr (N.land x 24) 3 =? (x / 8) mod 4)) in H; [|vm_compute; reflexivity].
  apply N.eqb_eq in H. exact H. Qed.

Lemma mask_octet n x : n < 8 -> x < 256 -> N.land x (255 - N.shiftr 255 n) = keep_bits x n.
Proof.
  intros Hn Hx.
  assert (H : forallb (fun n => forallb (fun x => N.land x (255 - N.shiftr 255 n) =? keep_bits x n) bytes256)
                      [0;1;2;3;4;5;6;7] = true) by (vm_compute; reflexivity).
  rewrite forallb_forall in H.
  assert (Hin : In n [0;1;2;3;4;5;6;7]).
  { assert (n = 0 \/ n = 1 \/ n = 2 \/ n = 3 \/ n = 4 \/ n = 5 \/ n = 6 \/ n = 7) as Hc by lia.
    simpl. intuition. }
  specialize (H n Hin). apply (byte_sweep _ H) in Hx. apply N.eqb_eq in Hx. exact Hx.
Qed.

Lemma be32_w32 a b c d : be32 a b c d = w32 a b c d.
Proof. unfold be32, w32. lia. Qed.

Lemma bytes_ok_cons' x r : bytes_ok (x :: r) -> x < 256 /\ bytes_ok r.
Proof. intros H. inversion H; subst. auto. Qed.

(* ---------------------------------------------------------------- *)
(* the option loop follows the TLV split *)

Definition obytes (x : N * N * bytes) : bytes := match x with (t, l, body) => t :: l :: body end.

(* the list of triples is a split of b *)
Fixpoint tlv_wf (tl : list (N * N * bytes)) : Prop :=
  match tl with
  | [] => True
  | (t, l, body) :: r => 1 <= l /\ List.length body = (N.to_nat l * 8 - 2)%nat /\ tlv_wf r
  end.

Lemma split_tlv_wf : forall fuel b tl, split_tlv fuel b = Some tl -> tlv_wf tl /\ b = concat (map obytes tl).
Proof.
  induction fuel as [|f IH]; intros b tl H; simpl in H.
  - destruct b; inversion H; subst. simpl. auto.
  - destruct b as [|t [|l rest]]; try discriminate.
    + inversion H; subst. simpl. auto.
    + destruct (l =? 0) eqn:El; [discriminate|].
      destruct (List.length rest <? N.to_nat l * 8 - 2)%nat eqn:En; [discriminate|].
      destruct (split_tlv f (skipn (N.to_nat l * 8 - 2) rest)) as [r|] eqn:Er; [|discriminate].
      inversion H; subst. apply IH in Er as [Hw Hc]. simpl. split.
      * split; [lia|]. split; [|exact Hw]. rewrite firstn_length. lia.
      * f_equal. f_equal. rewrite <- Hc. symmetry. apply firstn_skipn.
Qed.

Lemma firstn_app_exact {A} (a b : list A) n : List.length a = n -> firstn n (a ++ b) = a.
Proof. intros <-. rewrite firstn_app, Nat.sub_diag, firstn_all. simpl. apply app_nil_r. Qed.
Lemma skipn_app_exact {A} (a b : list A) n : List.length a = n -> skipn n (a ++ b) = b.
Proof. intros <-. rewrite skipn_app, Nat.sub_diag, skipn_all. reflexivity. Qed.

(* fold of the per-option step over the triples *)
Fixpoint steps (o : new_options) (tl : list (N * N * bytes)) : res new_options :=
  match tl with
  | [] => Ok o
  | x :: r => match opt_step o (fst (fst x)) (obytes x) with
              | Ok o' => steps o' r
              | Err e => Err e | Panic => Panic | Fuel => Fuel
              end
  end.

Lemma parse_opts_steps : forall tl fuel o, tlv_wf tl -> (List.length tl < fuel)%nat ->
  parse_opts fuel (concat (map obytes tl)) o = steps o tl.
Proof.
  induction tl as [|[[t l] body] r IH]; intros fuel o Hw Hf.
  - destruct fuel; [simpl in Hf; lia|]. reflexivity.
  - destruct fuel as [|f]; [simpl in Hf; lia|].
    destruct Hw as [Hl [Hb Hw]]. simpl in Hf.
    cbn [map concat obytes steps fst]. 
    change ((t :: l :: body) ++ concat (map obytes r)) with (t :: l :: (body ++ concat (map obytes r))).
    cbn [parse_opts].
    assert (Hlen : blen (t :: l :: body ++ concat (map obytes r)) = l * 8 + N.of_nat (List.length (concat (map obytes r)))).
    { unfold blen. cbn [List.length]. rewrite app_length. lia. }
    rewrite Hlen.
    destruct (l * 8 + N.of_nat (List.length (concat (map obytes r))) <? 2) eqn:E2; [lia|].
    unfold at_. cbn [nth].
    destruct (l * 8 =? 0) eqn:E0; [lia|].
    destruct (l * 8 + N.of_nat (List.length (concat (map obytes r))) <? l * 8) eqn:E3; [lia|].
    assert (Hn : N.to_nat (l * 8) = S (S (List.length body))) by lia.
    rewrite Hn. cbn [firstn skipn].
    rewrite firstn_app_exact by reflexivity. rewrite skipn_app_exact by reflexivity.
    unfold bind. destruct (opt_step o t (t :: l :: body)) eqn:Eo; unfold bytes, byte in *; rewrite ?Eo; try reflexivity.
    apply IH; [exact Hw|lia].
Qed.

(* ---------------------------------------------------------------- *)
(* one option: the model step in closed form, for every option the reference decoder accepts *)

Lemma opt_step_1 o ob : opt_step o 1 ob = (m <- lla_unmarshal ob ;; Ok (set_slla o m))%res.
Proof. reflexivity. Qed.
Lemma opt_step_2 o ob : opt_step o 2 ob = (m <- lla_unmarshal ob ;; Ok (set_tlla o m))%res.
Proof. reflexivity. Qed.
Lemma opt_step_5 o ob : opt_step o 5 ob =
  match mtu_unmarshal ob with Ok v => Ok (set_mtu o v) | Err _ => Ok o | Panic => Panic | Fuel => Fuel end.
Proof. reflexivity. Qed.
Lemma opt_step_3 o ob : opt_step o 3 ob = (p <- pi_unmarshal ob ;; Ok (add_prefix o p))%res.
Proof. reflexivity. Qed.
Lemma opt_step_24 o ob : opt_step o 24 ob =
  ('(r, ok) <- ri_unmarshal (o_ri o) ob ;; Ok (if ok then add_route (set_ri o r) r else set_ri o r))%res.
Proof. reflexivity. Qed.
Lemma opt_step_25 o ob : opt_step o 25 ob =
  ('(r, ok) <- rd_unmarshal (o_rdnss o) ob ;;
   Ok (if ok then add_rdnss (set_rdnss o r) (mkRD (rd_life r) (skipn (List.length (rd_servers (o_rdnss o))) (rd_servers r)))
       else set_rdnss o r))%res.
Proof. reflexivity. Qed.
Lemma opt_step_31 o ob : opt_step o 31 ob =
  ('(r, ok) <- ds_unmarshal (o_dnssl o) ob ;; Ok (if ok then add_dnssl (set_dnssl o r) r else set_dnssl o r))%res.
Proof. reflexivity. Qed.
Lemma opt_step_other o t ob :
  t <> 1 -> t <> 2 -> t <> 5 -> t <> 3 -> t <> 24 -> t <> 25 -> t <> 31 -> opt_step o t ob = Ok o.
Proof.
  intros. unfold opt_step.
  repeat match goal with |- context [?a =? ?b] => destruct (N.eqb_spec a b); [congruence|] end.
  reflexivity.
Qed.

(* link-layer address *)
Lemma lla_ok t body : lla_unmarshal (t :: 1 :: body) = Ok body.
Proof. reflexivity. Qed.

(* MTU *)
Lemma mtu_model r0 r1 a b c d t :
  mtu_unmarshal [t; 1; r0; r1; a; b; c; d] = Ok (w32 a b c d).
Proof. unfold mtu_unmarshal. change (at_ [t; 1; r0; r1; a; b; c; d] 1) with 1.
  change (negb (Z.of_N 1 * 8 - 2 =? 6)%Z) with false. cbv iota.
  unfold be32_at, at_, mtu_off. cbn [nth Nat.add]. rewrite be32_w32. reflexivity. Qed.

(* prefix masking: the iterative CIDR mask against the closed form per octet *)
Lemma and_mask_lead : forall a i pl, bytes_ok a -> i mod 8 = 0 ->
  and_bytes a (cidr_mask (List.length a) (pl - i)) = lead_bits a i pl.
Proof.
  induction a as [|x r IH]; intros i pl Hok Hi; [reflexivity|].
  inversion Hok as [|? ? Hx Hr]; subst. cbn [List.length cidr_mask lead_bits].
  destruct (8 <=? pl - i) eqn:E.
  - cbn [and_bytes]. f_equal.
    + unfold keep_bits. rewrite E.
      assert (H := byte_sweep (fun x => N.land x 255 =? x)). rewrite (proj1 (N.eqb_eq _ _) (H eq_refl x Hx)). reflexivity.
    + replace (pl - i - 8) with (pl - (i + 8)) by lia. apply IH; [exact Hr|].
      rewrite N.add_mod by lia. rewrite Hi. reflexivity.
  - cbn [and_bytes]. f_equal.
    + apply mask_octet; [lia|exact Hx].
    + replace 0 with (pl - (i + 8)) by lia. apply IH; [exact Hr|].
      rewrite N.add_mod by lia. rewrite Hi. reflexivity.
Qed.

Lemma ip_mask128_lead a pl : bytes_ok a -> List.length a = 16%nat -> pl <= 128 ->
  ip_mask128 a pl = lead_bits a 0 pl.
Proof.
  intros Hok Hl Hp. unfold ip_mask128. destruct (128 <? pl) eqn:E; [lia|].
  rewrite <- Hl. replace pl with (pl - 0) at 1 by lia. apply and_mask_lead; auto.
Qed.

(* ---------------------------------------------------------------- *)
(* DNS search list: the index loop of DNSSearchList.unmarshal against the
   name-by-name reference parser *)

Lemma label_ok_model lab : label_ok lab = true ->
  isascii lab = true /\ has_byte 46 lab = false /\ has_byte 32 lab = false.
Proof.
  induction lab as [|c r IH]; simpl; intros H; [auto|].
  apply andb_true_iff in H as [H1 H2]. apply andb_true_iff in H1 as [H1 H3].
  apply andb_true_iff in H1 as [H1 H4].
  destruct (IH H2) as [Ha [Hb Hc]]. rewrite H1, Ha, Hb, Hc.
  apply negb_true_iff in H3, H4. rewrite H3, H4. auto.
Qed.

Lemma join_labels_snoc ls x : ls <> [] -> join_labels (ls ++ [x]) = join_labels ls ++ 46 :: x.
Proof.
  induction ls as [|a r IH]; intros H; [congruence|].
  destruct r as [|b r']; [reflexivity|].
  change ((a :: b :: r') ++ [x]) with (a :: ((b :: r') ++ [x])).
  change (join_labels (a :: (b :: r') ++ [x])) with (a ++ 46 :: join_labels ((b :: r') ++ [x])).
  rewrite IH by discriminate. change (join_labels (a :: b :: r')) with (a ++ 46 :: join_labels (b :: r')).
  rewrite <- app_assoc. reflexivity.
Qed.

Lemma dnssl_fuel_irrelevant : forall f1 f2 rest labels doms,
  (List.length rest < f1)%nat -> (List.length rest < f2)%nat ->
  dnssl_loop f1 rest labels doms = dnssl_loop f2 rest labels doms.
Proof.
  induction f1 as [|f1 IH]; intros f2 rest labels doms H1 H2; [lia|].
  destruct f2 as [|f2]; [lia|]. cbn [dnssl_loop].
  destruct (blen rest <? 2) eqn:E2; [reflexivity|].
  destruct (blen rest - 1 <=? at_ rest 0) eqn:E3; [reflexivity|].
  destruct (at_ rest 0 =? 0) eqn:E0; [reflexivity|].
  destruct (negb (isascii (firstn (N.to_nat (at_ rest 0)) (skipn 1 rest)))); [reflexivity|].
  destruct (has_byte 46 _ || has_byte 32 _); [reflexivity|].
  assert (Hl : (List.length (skipn (N.to_nat (at_ rest 0)) (skipn 1 rest)) < List.length rest)%nat).
  { rewrite !skipn_length. unfold blen in E2. lia. }
  destruct (at_ (skipn (N.to_nat (at_ rest 0)) (skipn 1 rest)) 0 =? 0).
  - destruct ((blen _ =? 0) || _); [reflexivity|].
    apply IH; rewrite skipn_length; lia.
  - apply IH; lia.
Qed.

Definition ds_done (r3 : bytes) : bool := (blen r3 =? 0) || ((blen r3 =? 1) && (at_ r3 0 =? 0)).

Lemma name_loop : forall F b acc first labels doms nm r3 f,
  dn_name F b acc first = Some (nm, r3) ->
  at_ b 0 <> 0 ->
  ((first = true /\ labels = []) \/ (first = false /\ labels <> [] /\ acc = join_labels labels)) ->
  (List.length b < f)%nat ->
  dnssl_loop f b labels doms =
    if ds_done r3 then Ok (doms ++ [nm]) else dnssl_loop (S (List.length r3)) r3 [] (doms ++ [nm]).
Proof.
  induction F as [|F IH]; intros b acc first labels doms nm r3 f Hs Hh Hl Hf; [discriminate|].
  cbn [dn_name] in Hs. destruct b as [|n r]; [discriminate|].
  unfold at_ in Hh. cbn [nth] in Hh.
  destruct n as [|pn] eqn:En; [congruence|]. rewrite <- En in *. clear pn En.
  destruct (List.length r <=? N.to_nat n)%nat eqn:Elen; [discriminate|].
  destruct (negb (label_ok (firstn (N.to_nat n) r))) eqn:Elab; [discriminate|].
  apply negb_false_iff in Elab. destruct (label_ok_model _ Elab) as [Ha [Hb Hc]].
  destruct f as [|f]; [lia|]. cbn [dnssl_loop].
  assert (Hblen : blen (n :: r) = N.of_nat (List.length r) + 1) by (unfold blen; cbn [List.length]; lia).
  rewrite Hblen. change (at_ (n :: r) 0) with n.
  destruct (N.of_nat (List.length r) + 1 <? 2) eqn:E2; [lia|].
  destruct (N.of_nat (List.length r) + 1 - 1 <=? n) eqn:E3; [lia|].
  destruct (n =? 0) eqn:E0; [lia|].
  cbn [skipn]. rewrite Ha, Hb, Hc. cbn [negb orb].
  set (lab := firstn (N.to_nat n) r) in *.
  set (r2 := skipn (N.to_nat n) r) in *.
  set (acc' := if first then lab else acc ++ 46 :: lab) in *.
  assert (Hjoin : join_labels (labels ++ [lab]) = acc').
  { destruct Hl as [[-> ->]|[-> [Hne ->]]]; [reflexivity|]. apply join_labels_snoc. exact Hne. }
  assert (Hr2 : (0 < List.length r2 < List.length r)%nat).
  { unfold r2. rewrite skipn_length. lia. }
  destruct r2 as [|x r3'] eqn:Er2; [cbn in Hr2; lia|].
  change (at_ (x :: r3') 0) with x.
  destruct x as [|px] eqn:Ex.
  - (* terminator: the name ends here *)
    destruct F as [|F']; [discriminate|]. cbn [dn_name] in Hs. inversion Hs; subst nm r3. clear Hs.
    change (0 =? 0) with true.
    match goal with |- (if true then ?a else ?b) = _ => change (a = if ds_done r3' then Ok (doms ++ [acc']) else dnssl_loop (S (List.length r3')) r3' [] (doms ++ [acc'])) end.
    cbn [skipn]. rewrite Hjoin.
    fold (ds_done r3'). destruct (ds_done r3'); [reflexivity|].
    apply dnssl_fuel_irrelevant; cbn [List.length] in *; lia.
  - rewrite <- Ex in *.
    assert (Hx0 : (x =? 0) = false) by (apply N.eqb_neq; lia). rewrite Hx0.
    apply (IH (x :: r3') acc' false (labels ++ [lab]) doms nm r3 f Hs).
    + unfold at_. cbn [nth]. lia.
    + right. split; [reflexivity|]. split; [destruct labels; discriminate|]. symmetry. exact Hjoin.
    + cbn [List.length] in *. lia.
Qed.

Lemma names_loop : forall F b ns doms f,
  dn_names F b = Some ns -> ns <> [] -> (List.length b < f)%nat ->
  dnssl_loop f b [] doms = Ok (doms ++ ns).
Proof.
  induction F as [|F IH]; intros b ns doms f Hs Hne Hf; [discriminate|].
  cbn [dn_names] in Hs. destruct b as [|x r]; [inversion Hs; congruence|].
  destruct x as [|px] eqn:Ex; [inversion Hs; congruence|]. rewrite <- Ex in *.
  assert (Hx : x <> 0) by lia. clear px Ex.
  destruct (dn_name (S (List.length (x :: r))) (x :: r) [] true) as [[nm r3]|] eqn:En; [|discriminate].
  destruct (dn_names F r3) as [l|] eqn:El; [|discriminate]. inversion Hs; subst ns. clear Hs.
  rewrite (name_loop _ _ _ _ [] doms _ _ f En); [|unfold at_; cbn [nth]; exact Hx|left; auto|exact Hf].
  destruct (ds_done r3) eqn:Ed.
  - (* nothing but (at most one byte of) padding left *)
    unfold ds_done in Ed. destruct F as [|F']; [discriminate|]. cbn [dn_names] in El.
    destruct r3 as [|y r4]; [inversion El; reflexivity|].
    destruct y as [|py]; [inversion El; reflexivity|].
    unfold blen, at_ in Ed. cbn [List.length nth] in Ed. exfalso.
    destruct r4; cbn [List.length] in Ed; [|lia].
    change (N.of_nat 1 =? 0) with false in Ed. cbn [orb] in Ed.
    apply andb_true_iff in Ed as [_ Ed]. apply N.eqb_eq in Ed. discriminate.
  - destruct l as [|n1 l1].
    + (* padding that starts with a zero octet: the loop breaks on the empty label *)
      destruct F as [|F']; [discriminate|]. cbn [dn_names] in El.
      destruct r3 as [|y r4]; [unfold ds_done, blen in Ed; cbn in Ed; discriminate|].
      destruct y as [|py].
      * cbn [dnssl_loop]. unfold ds_done, blen, at_ in Ed. cbn [List.length nth] in Ed.
        destruct r4 as [|z r5]; [cbn in Ed; discriminate|].
        unfold blen, at_. cbn [List.length nth].
        destruct (N.of_nat (S (S (List.length r5))) <? 2) eqn:E2; [lia|].
        destruct (N.of_nat (S (S (List.length r5))) - 1 <=? 0) eqn:E3; [lia|].
        reflexivity.
      * exfalso.
        match type of El with match ?t with _ => _ end = _ => destruct t as [[q1 q2]|] end; [|discriminate El].
        destruct (dn_names F' q2); discriminate El.
    + rewrite (IH r3 (n1 :: l1) (doms ++ [nm]) (S (List.length r3)) El); [|discriminate|lia].
      rewrite <- app_assoc. reflexivity.
Qed.

(* ---------------------------------------------------------------- *)
(* route prefix: only the octets that carry prefix bits matter *)
Lemma keep_bits_0 x : x < 256 -> keep_bits x 0 = 0.
Proof. intros H. unfold keep_bits. change (8 <=? 0) with false. cbv iota.
  change (2 ^ (8 - 0)) with 256. rewrite N.div_small by exact H. reflexivity. Qed.

Lemma lead_bits_ext : forall a b i pl, List.length a = List.length b -> bytes_ok a -> bytes_ok b ->
  (forall k, i + 8 * N.of_nat k < pl -> nth k a 0 = nth k b 0) ->
  lead_bits a i pl = lead_bits b i pl.
Proof.
  induction a as [|x a IH]; intros [|y b] i pl Hl Ha Hb H; try discriminate; [reflexivity|].
  apply bytes_ok_cons' in Ha as [Hx Ha]. apply bytes_ok_cons' in Hb as [Hy Hb].
  cbn [lead_bits]. f_equal.
  - destruct (N.ltb_spec i pl) as [Hlt|Hge].
    + specialize (H O). cbn [nth] in H. rewrite H by lia. reflexivity.
    + replace (pl - i) with 0 by lia. rewrite !keep_bits_0 by assumption. reflexivity.
  - apply IH; auto. intros k Hk. apply (H (S k)). lia.
Qed.

Lemma nth_firstn_lt {A} (d : A) : forall m l k, (k < m)%nat -> nth k (firstn m l) d = nth k l d.
Proof.
  induction m as [|m IH]; intros l k Hk; [lia|]. destruct l as [|x l]; [reflexivity|].
  destruct k as [|k]; [reflexivity|]. cbn [firstn nth]. apply IH. lia.
Qed.

Lemma bytes_ok_zeros n : bytes_ok (repeat 0 n).
Proof. apply bytes_ok_repeat. lia. Qed.

Lemma route_prefix_eq raw pl : bytes_ok raw -> pl <= 128 -> (N.to_nat ((pl + 7) / 8) <= List.length raw)%nat ->
  ip_mask128 (firstn 16 (firstn (N.to_nat ((pl + 7) / 8)) raw ++ repeat 0 16)) pl = lead_bits (pad16 raw) 0 pl.
Proof.
  intros Hok Hpl Hn. set (n := N.to_nat ((pl + 7) / 8)) in *.
  assert (Hl1 : List.length (firstn 16 (firstn n raw ++ repeat 0 16)) = 16%nat).
  { rewrite firstn_length, app_length, repeat_length. lia. }
  assert (Hok1 : bytes_ok (firstn 16 (firstn n raw ++ repeat 0 16))).
  { apply bytes_ok_firstn. apply bytes_ok_app. split; [apply bytes_ok_firstn; exact Hok|apply bytes_ok_zeros]. }
  rewrite ip_mask128_lead by assumption.
  apply lead_bits_ext.
  - rewrite Hl1. unfold pad16. rewrite firstn_length, app_length, repeat_length. lia.
  - exact Hok1.
  - unfold pad16. apply bytes_ok_firstn. apply bytes_ok_app. split; [exact Hok|apply bytes_ok_zeros].
  - intros k Hk. assert (Hkn : (k < n)%nat) by (unfold n; lia).
    assert (Hk16 : (k < 16)%nat) by lia.
    unfold pad16. rewrite !nth_firstn_lt by exact Hk16.
    rewrite !app_nth1 by (try rewrite firstn_length; lia).
    apply nth_firstn_lt. exact Hkn.
Qed.

(* ---------------------------------------------------------------- *)
(* RDNSS servers *)
Lemma rd_servers_chunks : forall n pre rest, (16 * n <= List.length rest)%nat ->
  rd_servers_from (pre ++ rest) (List.length pre) n = chunks16 rest n.
Proof.
  induction n as [|n IH]; intros pre rest H; [reflexivity|].
  cbn [rd_servers_from chunks16]. f_equal.
  - unfold sub. rewrite skipn_app_exact by reflexivity. reflexivity.
  - rewrite <- (firstn_skipn 16 rest) at 1. rewrite app_assoc.
    replace (List.length pre + 16)%nat with (List.length (pre ++ firstn 16 rest)).
    + apply IH. rewrite skipn_length. lia.
    + rewrite app_length, firstn_length. lia.
Qed.

(* ---------------------------------------------------------------- *)
(* the model step in closed form *)
Definition apply1 (o : new_options) (d : ndopt) : new_options :=
  match d with
  | OSlla m => set_slla o m
  | OTlla m => set_tlla o m
  | OMtu m => set_mtu o m
  | OPrefix pl on au v p pfx => add_prefix o (mkPI pl on au v p pfx)
  | ORoute pl prf life pfx => add_route (set_ri o (mkRI pl prf life true pfx)) (mkRI pl prf life true pfx)
  | ORdnss life srv => add_rdnss (set_rdnss o (mkRD life (rd_servers (o_rdnss o) ++ srv))) (mkRD life srv)
  | ODnssl life names => add_dnssl (set_dnssl o (mkDS life names)) (mkDS life names)
  | OOther _ => o
  end.

Ltac okb H := repeat match type of H with bytes_ok (_ :: _) => let a := fresh "Hb" in inversion H as [|? ? a H']; clear H; rename H' into H; subst end.

Lemma bytes_ok_cons x r : bytes_ok (x :: r) -> x < 256 /\ bytes_ok r.
Proof. intros H. inversion H; subst. auto. Qed.

Lemma opt_step_char t l body d o :
  1 <= l -> l < 256 -> List.length body = (N.to_nat l * 8 - 2)%nat -> bytes_ok body ->
  decode_opt t l body = Some d ->
  opt_step o t (t :: l :: body) = Ok (apply1 o d).
Proof.
  intros Hl1 Hl2 Hlen Hok Hd. unfold decode_opt in Hd.
  destruct (N.eqb_spec t 1) as [->|N1].
  { destruct (N.eqb_spec l 1) as [->|]; [|discriminate]. inversion Hd; subst. reflexivity. }
  destruct (N.eqb_spec t 2) as [->|N2].
  { destruct (N.eqb_spec l 1) as [->|]; [|discriminate]. inversion Hd; subst. reflexivity. }
  destruct (N.eqb_spec t 5) as [->|N5].
  { destruct body as [|r0 [|r1 [|a [|b [|c [|e [|? ?]]]]]]]; try discriminate.
    inversion Hd; subst. cbn [List.length] in Hlen. assert (l = 1) by lia. subst l.
    rewrite opt_step_5, mtu_model. reflexivity. }
  destruct (N.eqb_spec t 3) as [->|N3].
  { destruct body as [|pl [|fl [|v0 [|v1 [|v2 [|v3 [|p0 [|p1 [|p2 [|p3 [|x0 [|x1 [|x2 [|x3 addr]]]]]]]]]]]]]]; try discriminate.
    destruct ((l =? 4) && (pl <=? 128)) eqn:E; [|discriminate]. apply andb_true_iff in E as [E1 E2].
    apply N.eqb_eq in E1. subst l. apply N.leb_le in E2. inversion Hd; subst. clear Hd.
    cbn [List.length] in Hlen.
    repeat (apply bytes_ok_cons in Hok; destruct Hok as [? Hok]).
    rewrite opt_step_3. unfold pi_unmarshal. change (at_ (3 :: 4 :: _) 1) with 4.
    change (negb (4 =? 4)) with false. cbv iota. cbn [skipn].
    change (at_ (pl :: fl :: v0 :: v1 :: v2 :: v3 :: p0 :: p1 :: p2 :: p3 :: x0 :: x1 :: x2 :: x3 :: addr) 0) with pl.
    destruct (128 <? pl) eqn:E128; [lia|].
    unfold be32_at, at_. cbn [nth Nat.add]. unfold sub. cbn [skipn].
    rewrite firstn_all2 by lia. rewrite ip_mask128_lead by (auto; lia).
    rewrite bit7, bit6 by assumption. rewrite !be32_w32. reflexivity. }
  destruct (N.eqb_spec t 24) as [->|N24].
  { destruct body as [|pl [|fl [|t0 [|t1 [|t2 [|t3 pfx]]]]]]; try discriminate.
    match type of Hd with (if ?c then _ else _) = _ => destruct c eqn:E; [|discriminate] end.
    inversion Hd; subst. clear Hd.
    repeat (apply andb_true_iff in E; destruct E as [E ?]).
    repeat (apply bytes_ok_cons in Hok; destruct Hok as [? Hok]).
    rewrite opt_step_24. unfold ri_unmarshal.
    change (at_ (24 :: l :: pl :: _) 1) with l. change (at_ (24 :: l :: pl :: _) 2) with pl.
    change (at_ (24 :: l :: pl :: fl :: _) 3) with fl.
    assert (Hlo : ri_len_ok l pl = true).
    { unfold ri_len_ok. destruct (pl =? 0) eqn:P0; [lia|]. destruct (pl <? 65) eqn:P1; [lia|].
      destruct (pl <? 129) eqn:P2; lia. }
    rewrite Hlo. cbn [negb]. rewrite prf_bits by assumption.
    match goal with H : negb (_ =? 2) = true |- _ => apply negb_true_iff in H; rewrite H end.
    unfold bind. unfold be32_at, at_. cbn [nth Nat.add]. rewrite be32_w32.
    unfold ri_prefix_bytes, sub. cbn [skipn].
    rewrite route_prefix_eq; [reflexivity|exact Hok|lia|].
    cbn [List.length] in Hlen.
    repeat match goal with H : (_ <=? _) = true |- _ => apply N.leb_le in H | H : (_ || _) = true |- _ => apply orb_true_iff in H
           | H : (_ =? _) = true |- _ => apply N.eqb_eq in H end.
    lia. }
  destruct (N.eqb_spec t 25) as [->|N25].
  { destruct body as [|r0 [|r1 [|t0 [|t1 [|t2 [|t3 addrs]]]]]]; try discriminate.
    destruct ((3 <=? l) && N.odd l) eqn:E; [|discriminate]. apply andb_true_iff in E as [E1 E2].
    inversion Hd; subst. clear Hd. cbn [List.length] in Hlen.
    rewrite opt_step_25. unfold rd_unmarshal. change (at_ (25 :: l :: _) 1) with l. cbn [skipn].
    assert (Hc : (l - 1) * 8 / 16 = (l - 1) / 2).
    { replace 16 with (8 * 2) by reflexivity. rewrite N.mul_comm. rewrite N.div_mul_cancel_l by lia. reflexivity. }
    assert (Hm : ((l - 1) * 8) mod 16 = 0).
    { rewrite N.odd_spec in E2. destruct E2 as [k Hk]. subst l. replace ((2 * k + 1 - 1) * 8) with (k * 16) by lia.
      apply N.mod_mul. lia. }
    rewrite Hm. change (negb (0 =? 0)) with false. cbv iota.
    rewrite Hc. destruct ((l - 1) / 2 =? 0) eqn:E0; [lia|].
    unfold bind. unfold be32_at, at_. cbn [nth Nat.add]. rewrite be32_w32.
    change (r0 :: r1 :: t0 :: t1 :: t2 :: t3 :: addrs) with ([r0; r1; t0; t1; t2; t3] ++ addrs).
    rewrite (rd_servers_chunks _ [r0; r1; t0; t1; t2; t3] addrs).
    - cbn [rd_life rd_servers]. rewrite skipn_app_exact by reflexivity. reflexivity.
    - apply N.leb_le in E1. rewrite N.odd_spec in E2. destruct E2 as [k Hk]. subst l.
      replace ((2 * k + 1 - 1) / 2) with k by (replace (2 * k + 1 - 1) with (k * 2) by lia; rewrite N.div_mul; lia).
      lia. }
  destruct (N.eqb_spec t 31) as [->|N31].
  { destruct body as [|r0 [|r1 [|t0 [|t1 [|t2 [|t3 names]]]]]]; try discriminate.
    destruct (dn_names (S (List.length names)) names) as [[|n ns]|] eqn:En; try discriminate.
    inversion Hd; subst. clear Hd. cbn [List.length] in Hlen.
    rewrite opt_step_31. unfold ds_unmarshal.
    assert (Hbl : blen (31 :: l :: r0 :: r1 :: t0 :: t1 :: t2 :: t3 :: names) = l * 8).
    { unfold blen. cbn [List.length]. lia. }
    rewrite Hbl. destruct (l * 8 <? 2) eqn:E2; [lia|].
    change (at_ (31 :: l :: _) 1) with l. cbn [skipn].
    assert (Hbv : blen (r0 :: r1 :: t0 :: t1 :: t2 :: t3 :: names) = l * 8 - 2).
    { unfold blen. cbn [List.length]. lia. }
    rewrite Hbv. unfold raw_len. cbn [apply1].
    assert (Heq : (Z.of_N l * 8 - 2 =? Z.of_N (l * 8 - 2))%Z = true) by (apply Z.eqb_eq; lia).
    rewrite Heq. cbn [negb].
    rewrite (names_loop _ _ _ [] _ En); [|discriminate|cbn [List.length]; lia].
    cbn [app List.length Nat.eqb]. unfold bind.
    unfold be32_at, at_. cbn [nth Nat.add]. rewrite be32_w32. reflexivity. }
  inversion Hd; subst. apply opt_step_other; assumption.
Qed.

(* ---------------------------------------------------------------- *)
(* the whole option area: the model's result is the fold of the reference decoder's list *)

Lemma steps_fold : forall tl ds o,
  tlv_wf tl -> Forall (fun x => bytes_ok (obytes x)) tl -> decode_all tl = Some ds ->
  steps o tl = Ok (fold_left apply1 ds o).
Proof.
  induction tl as [|[[t l] body] r IH]; intros ds o Hw Hok Hd.
  - inversion Hd; subst. reflexivity.
  - cbn [decode_all] in Hd. destruct (decode_opt t l body) as [d1|] eqn:E1; [|discriminate].
    destruct (decode_all r) as [dr|] eqn:Er; [|discriminate]. inversion Hd; subst. clear Hd.
    destruct Hw as [Hl [Hb Hw]]. inversion Hok as [|? ? Hx Hr]; subst.
    cbn [obytes] in Hx. apply bytes_ok_cons' in Hx as [Ht Hx]. apply bytes_ok_cons' in Hx as [Hl2 Hx].
    cbn [steps fst obytes]. rewrite (opt_step_char t l body d1 o Hl Hl2 Hb Hx E1).
    cbn [fold_left]. apply IH; auto.
Qed.

Lemma concat_ok tl : bytes_ok (concat (map obytes tl)) -> Forall (fun x => bytes_ok (obytes x)) tl.
Proof.
  induction tl as [|x r IH]; intros H; [constructor|].
  cbn [map concat] in H. apply bytes_ok_app in H as [H1 H2]. constructor; auto.
Qed.

Lemma tlv_count tl : (List.length tl <= List.length (concat (map obytes tl)))%nat.
Proof.
  induction tl as [|[[t l] body] r IH]; [simpl; lia|].
  cbn [map concat obytes]. rewrite app_length. cbn [List.length]. lia.
Qed.

Theorem ra_options_exact p d : bytes_ok p -> ra_decode p = Some d ->
  ra_options p = Ok (fold_left apply1 (ra_opts d) opts_zero).
Proof.
  intros Hok Hd. unfold ra_decode in Hd.
  destruct p as [|a0 [|a1 [|a2 [|a3 [|a4 [|a5 [|a6 [|a7 [|a8 [|a9 [|a10 [|a11 [|a12 [|a13 [|a14 [|a15 optb]]]]]]]]]]]]]]]];
    try discriminate.
  destruct (split_tlv (List.length optb) optb) as [tl|] eqn:Es; [|discriminate].
  destruct (decode_all tl) as [os|] eqn:Ea; [|discriminate]. inversion Hd; subst d. clear Hd. cbn [ra_opts].
  apply split_tlv_wf in Es as [Hw Hc].
  unfold ra_options.
  destruct optb as [|b0 optb'].
  - destruct tl as [|[[t l] body] r]; [|discriminate]. inversion Ea; subst. reflexivity.
  - assert (Hb : (blen (a0 :: a1 :: a2 :: a3 :: a4 :: a5 :: a6 :: a7 :: a8 :: a9 :: a10 :: a11 :: a12 :: a13 :: a14 :: a15 :: b0 :: optb') <=? 16) = false).
    { unfold blen. cbn [List.length]. lia. }
    rewrite Hb. cbn [skipn]. rewrite Hc.
    rewrite parse_opts_steps.
    + apply steps_fold; auto. apply concat_ok. rewrite <- Hc.
      do 16 (apply bytes_ok_cons' in Hok; destruct Hok as [_ Hok]). exact Hok.
    + exact Hw.
    + pose proof (tlv_count tl) as Hn. unfold opts_fuel. simpl List.length in *. clear - Hn. unfold bytes, byte in *. lia.
Qed.

(* ---------------------------------------------------------------- *)
(* what the fold leaves in each field *)

Lemma last_irrel {A} (l : list A) d d' : l <> [] -> last l d = last l d'.
Proof.
  induction l as [|a l IH]; intros H; [congruence|]. destruct l as [|b l]; [reflexivity|].
  change (last (b :: l) d = last (b :: l) d'). apply IH. discriminate.
Qed.
Lemma last_cons {A} (a : A) l d : last (a :: l) d = last l a.
Proof. destruct l as [|b l]; [reflexivity|]. change (last (b :: l) d = last (b :: l) a). apply last_irrel. discriminate. Qed.

Lemma fold_slla : forall ds o, o_slla (fold_left apply1 ds o) = last (sllas ds) (o_slla o).
Proof.
  induction ds as [|d r IH]; intros o; [reflexivity|]. cbn [fold_left]. rewrite IH.
  destruct d; cbn [sllas apply1]; try reflexivity. rewrite last_cons. reflexivity.
Qed.
Lemma fold_mtu : forall ds o, o_mtu (fold_left apply1 ds o) = last (mtus ds) (o_mtu o).
Proof.
  induction ds as [|d r IH]; intros o; [reflexivity|]. cbn [fold_left]. rewrite IH.
  destruct d; cbn [mtus apply1]; try reflexivity. rewrite last_cons. reflexivity.
Qed.
Lemma fold_prefixes : forall ds o, o_prefixes (fold_left apply1 ds o) = o_prefixes o ++ map pi_of (prefixes ds).
Proof.
  induction ds as [|d r IH]; intros o; [cbn; rewrite app_nil_r; reflexivity|]. cbn [fold_left]. rewrite IH.
  destruct d; cbn [prefixes apply1 map]; try reflexivity. cbn [add_prefix o_prefixes pi_of].
  rewrite <- app_assoc. reflexivity.
Qed.
Lemma fold_ri : forall ds o, o_ri (fold_left apply1 ds o) = last (map ri_of (routes ds)) (o_ri o).
Proof.
  induction ds as [|d r IH]; intros o; [reflexivity|]. cbn [fold_left]. rewrite IH.
  destruct d; cbn [routes apply1 map]; try reflexivity. rewrite last_cons. reflexivity.
Qed.
Lemma fold_dnssl : forall ds o, o_dnssl (fold_left apply1 ds o) = last (map ds_of (dnssls ds)) (o_dnssl o).
Proof.
  induction ds as [|d r IH]; intros o; [reflexivity|]. cbn [fold_left]. rewrite IH.
  destruct d; cbn [dnssls apply1 map]; try reflexivity. rewrite last_cons. reflexivity.
Qed.
(* RDNSS: the lifetime of the last option over the servers of all of them *)
Lemma fold_rdnss : forall ds o, o_rdnss (fold_left apply1 ds o) =
  mkRD (last (map rd_life_of (rdnsses ds)) (rd_life (o_rdnss o)))
       (rd_servers (o_rdnss o) ++ concat (map rd_srv_of (rdnsses ds))).
Proof.
  induction ds as [|d r IH]; intros o.
  - cbn. rewrite app_nil_r. destruct (o_rdnss o); reflexivity.
  - cbn [fold_left]. rewrite IH.
    destruct d; cbn [rdnsses apply1 map concat]; try reflexivity.
    cbn [add_rdnss set_rdnss o_rdnss rd_life rd_servers rd_life_of rd_srv_of]. rewrite last_cons, <- app_assoc. reflexivity.
Qed.

(* ---------------------------------------------------------------- *)
(* shape of what the reference decoder returns *)

Ltac dec_inv H :=
  unfold decode_opt in H;
  repeat match type of H with
  | (if ?c then _ else _) = _ => destruct c
  | match ?x with _ => _ end = _ => destruct x
  end; try discriminate H.

Lemma decode_rdnss_nonempty t l body life srv : decode_opt t l body = Some (ORdnss life srv) -> srv <> [].
Proof.
  intros H. unfold decode_opt in H.
  destruct (t =? 1); [destruct (l =? 1); discriminate|].
  destruct (t =? 2); [destruct (l =? 1); discriminate|].
  destruct (t =? 5); [destruct body as [|? [|? [|? [|? [|? [|? [|? ?]]]]]]]; discriminate|].
  destruct (t =? 3).
  { destruct body as [|? [|? [|? [|? [|? [|? [|? [|? [|? [|? [|? [|? [|? [|? ?]]]]]]]]]]]]]]; try discriminate.
    destruct (_ && _); discriminate. }
  destruct (t =? 24).
  { destruct body as [|? [|? [|? [|? [|? [|? ?]]]]]]; try discriminate. destruct (_ && _); discriminate. }
  destruct (t =? 25).
  { destruct body as [|? [|? [|? [|? [|? [|? addrs]]]]]]; try discriminate.
    destruct ((3 <=? l) && N.odd l) eqn:E; [|discriminate]. apply andb_true_iff in E as [E _].
    inversion H; subst. destruct (N.to_nat ((l - 1) / 2)) eqn:En; [lia|]. cbn [chunks16]. discriminate. }
  destruct (t =? 31).
  { destruct body as [|? [|? [|? [|? [|? [|? names]]]]]]; try discriminate.
    destruct (dn_names _ _) as [[|? ?]|]; discriminate. }
  discriminate.
Qed.

Lemma decode_dnssl_nonempty t l body life names : decode_opt t l body = Some (ODnssl life names) -> names <> [].
Proof.
  intros H. unfold decode_opt in H.
  destruct (t =? 1); [destruct (l =? 1); discriminate|].
  destruct (t =? 2); [destruct (l =? 1); discriminate|].
  destruct (t =? 5); [destruct body as [|? [|? [|? [|? [|? [|? [|? ?]]]]]]]; discriminate|].
  destruct (t =? 3).
  { destruct body as [|? [|? [|? [|? [|? [|? [|? [|? [|? [|? [|? [|? [|? [|? ?]]]]]]]]]]]]]]; try discriminate.
    destruct (_ && _); discriminate. }
  destruct (t =? 24).
  { destruct body as [|? [|? [|? [|? [|? [|? ?]]]]]]; try discriminate. destruct (_ && _); discriminate. }
  destruct (t =? 25).
  { destruct body as [|? [|? [|? [|? [|? [|? addrs]]]]]]; try discriminate. destruct (_ && _); discriminate. }
  destruct (t =? 31).
  { destruct body as [|? [|? [|? [|? [|? [|? nm]]]]]]; try discriminate.
    destruct (dn_names _ _) as [[|? ?]|]; try discriminate. inversion H; subst. discriminate. }
  discriminate.
Qed.

Definition opt_shape (o : ndopt) : Prop :=
  match o with
  | ORdnss _ srv => srv <> []
  | ODnssl _ names => names <> []
  | _ => True
  end.

Lemma decode_all_shape : forall tl ds, decode_all tl = Some ds -> Forall opt_shape ds.
Proof.
  induction tl as [|[[t l] body] r IH]; intros ds H; cbn [decode_all] in H.
  - inversion H; constructor.
  - destruct (decode_opt t l body) as [d1|] eqn:E1; [|discriminate].
    destruct (decode_all r) as [dr|]; [|discriminate]. inversion H; subst. constructor; [|apply IH; reflexivity].
    destruct d1; cbn [opt_shape]; auto.
    + eapply decode_rdnss_nonempty; eauto.
    + eapply decode_dnssl_nonempty; eauto.
Qed.

Lemma ra_decode_shape p d : ra_decode p = Some d -> Forall opt_shape (ra_opts d).
Proof.
  unfold ra_decode. intros H.
  destruct p as [|a0 [|a1 [|a2 [|a3 [|a4 [|a5 [|a6 [|a7 [|a8 [|a9 [|a10 [|a11 [|a12 [|a13 [|a14 [|a15 optb]]]]]]]]]]]]]]]];
    try discriminate.
  destruct (split_tlv _ _) as [tl|]; [|discriminate].
  destruct (decode_all tl) as [os|] eqn:E; [|discriminate]. inversion H; subst. cbn [ra_opts].
  eapply decode_all_shape; eauto.
Qed.

(* ---------------------------------------------------------------- *)
(* the options that may repeat: every one is recorded, in packet order *)

Lemma fold_routes : forall ds o, o_routes (fold_left apply1 ds o) = o_routes o ++ map ri_of (routes ds).
Proof.
  induction ds as [|d r IH]; intros o; [cbn; rewrite app_nil_r; reflexivity|]. cbn [fold_left]. rewrite IH.
  destruct d; cbn [routes apply1 map]; try reflexivity. cbn [add_route o_routes ri_of].
  rewrite <- app_assoc. reflexivity.
Qed.
Lemma fold_rdnss_all : forall ds o, o_rdnss_all (fold_left apply1 ds o) = o_rdnss_all o ++ map rd_of (rdnsses ds).
Proof.
  induction ds as [|d r IH]; intros o; [cbn; rewrite app_nil_r; reflexivity|]. cbn [fold_left]. rewrite IH.
  destruct d; cbn [rdnsses apply1 map]; try reflexivity. cbn [add_rdnss o_rdnss_all rd_of].
  rewrite <- app_assoc. reflexivity.
Qed.
Lemma fold_dnssl_all : forall ds o, o_dnssl_all (fold_left apply1 ds o) = o_dnssl_all o ++ map ds_of (dnssls ds).
Proof.
  induction ds as [|d r IH]; intros o; [cbn; rewrite app_nil_r; reflexivity|]. cbn [fold_left]. rewrite IH.
  destruct d; cbn [dnssls apply1 map]; try reflexivity. cbn [add_dnssl o_dnssl_all ds_of].
  rewrite <- app_assoc. reflexivity.
Qed.

(* ---------------------------------------------------------------- *)
(* malformed options of known types: the model against the lenient reference decoder *)

Lemma eta_ri o : set_ri o (o_ri o) = o.  Proof. destruct o; reflexivity. Qed.
Lemma eta_rd o : set_rdnss o (o_rdnss o) = o.  Proof. destruct o; reflexivity. Qed.

(* the DNSSL options of the list are well formed (their malformed variants are compared with the
   implementation by the correspondence run only) *)
Definition dnssl_wf (tl : list (N * N * bytes)) : Prop :=
  Forall (fun x => match x with (t, l, body) => t = 31 -> decode_opt t l body <> None end) tl.

Lemma opt_step_reject t l body o :
  1 <= l -> List.length body = (N.to_nat l * 8 - 2)%nat -> opt_reject t l body = true ->
  opt_step o t (t :: l :: body) = Err EOther.
Proof.
  intros Hl Hlen Hr. unfold opt_reject in Hr. apply orb_true_iff in Hr as [Hr|Hr].
  - apply andb_true_iff in Hr as [Ht Hn]. apply orb_true_iff in Ht as [Ht|Ht]; apply N.eqb_eq in Ht; subst t.
    + rewrite opt_step_1. unfold lla_unmarshal. change (at_ (1 :: l :: body) 1) with l. rewrite Hn. reflexivity.
    + rewrite opt_step_2. unfold lla_unmarshal. change (at_ (2 :: l :: body) 1) with l. rewrite Hn. reflexivity.
  - apply andb_true_iff in Hr as [Ht Hn]. apply N.eqb_eq in Ht. subst t.
    rewrite opt_step_3. unfold pi_unmarshal. change (at_ (3 :: l :: body) 1) with l.
    destruct (negb (l =? 4)) eqn:E4; [reflexivity|]. cbn [orb] in Hn. cbn [skipn].
    unfold at_ at 1. rewrite Hn. reflexivity.
Qed.

Lemma ri_cond_false l pl prf : 1 <= l ->
  ((l <=? 3) && (pl <=? 128) && ((pl <=? 64) || (l =? 3)) && ((pl =? 0) || (2 <=? l)) && negb (prf =? 2)) = false ->
  ri_len_ok l pl = false \/ (ri_len_ok l pl = true /\ prf = 2).
Proof.
  intros Hl H. unfold ri_len_ok.
  destruct (N.eqb_spec prf 2) as [->|Hp].
  - destruct (if pl =? 0 then _ else _); auto.
  - left. cbn [negb] in H. rewrite andb_true_r in H.
    destruct (pl =? 0) eqn:P0.
    + destruct (l <? 1) eqn:A; [lia|]. destruct (3 <? l) eqn:B; [reflexivity|]. exfalso.
      apply N.eqb_eq in P0. subst pl.
      destruct (l <=? 3) eqn:C; [|lia]. cbn in H. discriminate.
    + destruct (pl <? 65) eqn:P1.
      * destruct (l =? 2) eqn:A; destruct (l =? 3) eqn:B; try reflexivity; exfalso;
          (destruct (l <=? 3) eqn:C; [|lia]); (destruct (pl <=? 128) eqn:D; [|lia]);
          (destruct (pl <=? 64) eqn:E; [|lia]); (destruct (2 <=? l) eqn:F; [|lia]);
          cbn in H; rewrite ?orb_true_r in H; discriminate.
      * destruct (pl <? 129) eqn:P2; [|reflexivity].
        destruct (l =? 3) eqn:B; [|reflexivity]. exfalso.
        destruct (l <=? 3) eqn:C; [|lia]. destruct (pl <=? 128) eqn:D; [|lia]. destruct (2 <=? l) eqn:F; [|lia].
        cbn in H. rewrite ?orb_true_r in H. discriminate.
Qed.

Lemma opt_step_ignored t l body o :
  1 <= l -> l < 256 -> List.length body = (N.to_nat l * 8 - 2)%nat -> bytes_ok body ->
  decode_opt t l body = None -> opt_reject t l body = false -> t <> 31 ->
  opt_step o t (t :: l :: body) = Ok o.
Proof.
  intros Hl1 Hl2 Hlen Hok Hd Hr H31. unfold decode_opt in Hd. unfold opt_reject in Hr.
  destruct (N.eqb_spec t 1) as [->|N1].
  { destruct (N.eqb_spec l 1) as [->|]; [discriminate|]. cbn in Hr. destruct (l =? 1) eqn:E; [lia|discriminate]. }
  destruct (N.eqb_spec t 2) as [->|N2].
  { destruct (N.eqb_spec l 1) as [->|]; [discriminate|]. cbn in Hr. destruct (l =? 1) eqn:E; [lia|discriminate]. }
  destruct (N.eqb_spec t 5) as [->|N5].
  { rewrite opt_step_5. unfold mtu_unmarshal. change (at_ (5 :: l :: body) 1) with l.
    destruct (Z.eqb_spec (Z.of_N l * 8 - 2) 6) as [E|E]; [|reflexivity]. exfalso.
    assert (l = 1) by lia. subst l. cbn in Hlen.
    destruct body as [|? [|? [|? [|? [|? [|? [|? ?]]]]]]]; cbn in Hlen; try lia. discriminate. }
  destruct (N.eqb_spec t 3) as [->|N3].
  { exfalso. cbn [orb andb] in Hr. change (3 =? 1) with false in Hr. change (3 =? 2) with false in Hr.
    change (3 =? 3) with true in Hr. cbn [orb andb] in Hr.
    apply orb_false_iff in Hr as [Hr1 Hr2]. apply negb_false_iff in Hr1. apply N.eqb_eq in Hr1. subst l.
    cbn in Hlen.
    destruct body as [|pl [|fl [|v0 [|v1 [|v2 [|v3 [|p0 [|p1 [|p2 [|p3 [|x0 [|x1 [|x2 [|x3 addr]]]]]]]]]]]]]]; cbn in Hlen; try lia.
    cbn [nth] in Hr2. change (4 =? 4) with true in Hd. destruct (pl <=? 128) eqn:E; [discriminate|]. lia. }
  destruct (N.eqb_spec t 24) as [->|N24].
  { destruct body as [|pl [|fl [|t0 [|t1 [|t2 [|t3 pfx]]]]]]; try (cbn in Hlen; lia).
    match type of Hd with (if ?c then _ else _) = _ => destruct c eqn:E; [discriminate|] end.
    repeat (apply bytes_ok_cons' in Hok; destruct Hok as [? Hok]).
    rewrite opt_step_24. unfold ri_unmarshal.
    change (at_ (24 :: l :: pl :: _) 1) with l. change (at_ (24 :: l :: pl :: _) 2) with pl.
    change (at_ (24 :: l :: pl :: fl :: _) 3) with fl. rewrite prf_bits by assumption.
    destruct (ri_cond_false l pl ((fl / 8) mod 4) Hl1 E) as [Hf|[Ht Hp]].
    - rewrite Hf. cbn [negb bind]. apply f_equal. apply eta_ri.
    - rewrite Ht, Hp. cbn [negb]. change (2 =? 2) with true. cbv iota. cbn [bind]. apply f_equal. apply eta_ri. }
  destruct (N.eqb_spec t 25) as [->|N25].
  { destruct body as [|r0 [|r1 [|t0 [|t1 [|t2 [|t3 addrs]]]]]]; try (cbn in Hlen; lia).
    destruct ((3 <=? l) && N.odd l) eqn:E; [discriminate|].
    rewrite opt_step_25. unfold rd_unmarshal. change (at_ (25 :: l :: _) 1) with l. cbn [skipn].
    destruct (N.eqb_spec (((l - 1) * 8) mod 16) 0) as [Em|Em]; cbn [negb].
    - assert (Hodd : N.odd l = true).
      { rewrite N.odd_spec. exists ((l - 1) / 2). 
        assert (((l-1)*8) mod 16 = 8 * ((l-1) mod 2)) by (replace 16 with (8*2) by reflexivity; rewrite N.mul_comm; rewrite N.mul_mod_distr_l by lia; reflexivity).
        pose proof (N.div_mod (l-1) 2). lia. }
      rewrite Hodd, andb_true_r in E. assert (l = 1) by lia. subst l. change ((1 - 1) * 8 / 16 =? 0) with true. cbv iota.
      cbn [bind]. apply f_equal. apply eta_rd.
    - cbn [bind]. apply f_equal. apply eta_rd. }
  destruct (N.eqb_spec t 31) as [->|N31]; [congruence|]. discriminate.
Qed.

Theorem steps_lenient : forall tl o,
  tlv_wf tl -> Forall (fun x => bytes_ok (obytes x)) tl -> dnssl_wf tl ->
  steps o tl = match decode_lenient tl with
               | Some ds => Ok (fold_left apply1 ds o)
               | None => Err EOther
               end.
Proof.
  induction tl as [|[[t l] body] r IH]; intros o Hw Hok Hdw; [reflexivity|].
  destruct Hw as [Hl [Hb Hw]]. inversion Hok as [|? ? Hx Hr]; subst. inversion Hdw as [|? ? Hd1 Hdr]; subst.
  cbn [obytes] in Hx. apply bytes_ok_cons' in Hx as [Ht Hx]. apply bytes_ok_cons' in Hx as [Hl2 Hx].
  cbn [steps fst obytes decode_lenient].
  destruct (opt_reject t l body) eqn:Er.
  - rewrite (opt_step_reject t l body o Hl Hb Er). reflexivity.
  - destruct (decode_opt t l body) as [d1|] eqn:E1.
    + rewrite (opt_step_char t l body d1 o Hl Hl2 Hb Hx E1). rewrite (IH _ Hw Hr Hdr).
      destruct (decode_lenient r); reflexivity.
    + rewrite (opt_step_ignored t l body o Hl Hl2 Hb Hx E1 Er); [|intros ->; apply Hd1; auto].
      rewrite (IH _ Hw Hr Hdr). destruct (decode_lenient r); reflexivity.
Qed.

Theorem ra_options_lenient p tl :
  bytes_ok p -> (16 <= List.length p)%nat ->
  split_tlv (List.length (skipn 16 p)) (skipn 16 p) = Some tl -> dnssl_wf tl ->
  ra_options p = match ra_decode_lenient p with
                 | Some d => Ok (fold_left apply1 (ra_opts d) opts_zero)
                 | None => Err EOther
                 end.
Proof.
  intros Hok Hlen Hs Hdw.
  destruct p as [|a0 [|a1 [|a2 [|a3 [|a4 [|a5 [|a6 [|a7 [|a8 [|a9 [|a10 [|a11 [|a12 [|a13 [|a14 [|a15 optb]]]]]]]]]]]]]]]];
    try (cbn [List.length] in Hlen; lia).
  cbn [skipn] in Hs. unfold ra_decode_lenient. rewrite Hs.
  pose proof Hs as Hs'. apply split_tlv_wf in Hs' as [Hw Hc].
  unfold ra_options.
  destruct optb as [|b0 optb'].
  - destruct tl as [|[[t l] body] r]; [|discriminate]. reflexivity.
  - assert (Hb : (blen (a0 :: a1 :: a2 :: a3 :: a4 :: a5 :: a6 :: a7 :: a8 :: a9 :: a10 :: a11 :: a12 :: a13 :: a14 :: a15 :: b0 :: optb') <=? 16) = false).
    { unfold blen. cbn [List.length]. lia. }
    rewrite Hb. cbn [skipn]. rewrite Hc.
    rewrite parse_opts_steps.
    + rewrite steps_lenient; auto.
      * destruct (decode_lenient tl); reflexivity.
      * apply concat_ok. rewrite <- Hc. do 16 (apply bytes_ok_cons' in Hok; destruct Hok as [_ Hok]). exact Hok.
    + exact Hw.
    + pose proof (tlv_count tl) as Hn. unfold opts_fuel. simpl List.length in *. clear - Hn. unfold bytes, byte in *. lia.
Qed.

(* the strict decoder is the lenient one on advertisements without malformed options *)
Lemma decode_some_not_reject t l body d : decode_opt t l body = Some d -> opt_reject t l body = false.
Proof.
  intros H. unfold decode_opt in H. unfold opt_reject.
  destruct (N.eqb_spec t 1) as [->|N1].
  { destruct (l =? 1); [reflexivity|discriminate]. }
  destruct (N.eqb_spec t 2) as [->|N2].
  { destruct (l =? 1); [reflexivity|discriminate]. }
  cbn [orb andb].
  destruct (N.eqb_spec t 3) as [->|N3]; [|reflexivity].
  destruct body as [|pl [|fl [|v0 [|v1 [|v2 [|v3 [|p0 [|p1 [|p2 [|p3 [|x0 [|x1 [|x2 [|x3 addr]]]]]]]]]]]]]]; try discriminate.
  destruct ((l =? 4) && (pl <=? 128)) eqn:E; [|discriminate]. apply andb_true_iff in E as [E1 E2].
  rewrite E1. cbn [negb orb nth andb]. apply N.leb_le in E2. apply N.ltb_ge. exact E2.
Qed.

Lemma decode_all_lenient : forall tl ds, decode_all tl = Some ds -> decode_lenient tl = Some ds.
Proof.
  induction tl as [|[[t l] body] r IH]; intros ds H; cbn [decode_all] in H; [exact H|].
  destruct (decode_opt t l body) as [d1|] eqn:E1; [|discriminate].
  destruct (decode_all r) as [dr|] eqn:Er; [|discriminate]. inversion H; subst.
  cbn [decode_lenient]. rewrite (decode_some_not_reject _ _ _ _ E1), (IH _ eq_refl), E1. reflexivity.
Qed.

Theorem ra_decode_lenient_extends p d : ra_decode p = Some d -> ra_decode_lenient p = Some d.
Proof.
  unfold ra_decode, ra_decode_lenient. intros H.
  destruct p as [|a0 [|a1 [|a2 [|a3 [|a4 [|a5 [|a6 [|a7 [|a8 [|a9 [|a10 [|a11 [|a12 [|a13 [|a14 [|a15 optb]]]]]]]]]]]]]]]];
    try discriminate.
  destruct (split_tlv _ _) as [tl|]; [|discriminate].
  destruct (decode_all tl) as [os|] eqn:E; [|discriminate]. rewrite (decode_all_lenient _ _ E). exact H.
Qed.

(* ---------------------------------------------------------------- *)
(* an option area that cannot be split (truncated option, overrunning length, zero length,
   trailing byte): the advertisement is rejected, for every byte string *)

Lemma dnssl_no_fuel : forall f rest labels doms, (List.length rest < f)%nat ->
  dnssl_loop f rest labels doms <> Fuel /\ dnssl_loop f rest labels doms <> Panic.
Proof.
  induction f as [|f IH]; intros rest labels doms H; [lia|]. cbn [dnssl_loop].
  destruct (blen rest <? 2) eqn:E2; [split; discriminate|].
  destruct (blen rest - 1 <=? at_ rest 0); [split; discriminate|].
  destruct (at_ rest 0 =? 0); [split; discriminate|].
  destruct (negb (isascii _)); [split; discriminate|].
  destruct (has_byte 46 _ || has_byte 32 _); [split; discriminate|].
  assert (Hl : (List.length (skipn (N.to_nat (at_ rest 0)) (skipn 1 rest)) < List.length rest)%nat).
  { rewrite !skipn_length. unfold blen in E2. lia. }
  destruct (at_ (skipn (N.to_nat (at_ rest 0)) (skipn 1 rest)) 0 =? 0).
  - destruct ((blen _ =? 0) || _); [split; discriminate|]. apply IH. rewrite skipn_length. lia.
  - apply IH. lia.
Qed.

Definition benign (r : res new_options) : Prop :=
  match r with Ok _ => True | Err EOther => True | _ => False end.

Lemma opt_step_benign o t l body : benign (opt_step o t (t :: l :: body)).
Proof.
  unfold opt_step.
  destruct (t =? 1). { unfold lla_unmarshal. destruct (negb _); exact I. }
  destruct (t =? 2). { unfold lla_unmarshal. destruct (negb _); exact I. }
  destruct (t =? 5). { unfold mtu_unmarshal. destruct (negb _); exact I. }
  destruct (t =? 3). { unfold pi_unmarshal. destruct (negb _); [exact I|]. cbn [skipn]. destruct (128 <? _); exact I. }
  destruct (t =? 24). { unfold ri_unmarshal. destruct (negb _); [exact I|]. destruct (_ =? 2); exact I. }
  destruct (t =? 25). { unfold rd_unmarshal. destruct (negb _); [exact I|]. destruct (_ =? 0); exact I. }
  destruct (t =? 31).
  { unfold ds_unmarshal. destruct (blen _ <? 2); [exact I|]. destruct (negb _); [exact I|].
    match goal with |- context [dnssl_loop ?f ?v [] []] =>
      pose proof (dnssl_no_fuel f v [] []) as Hn;
      assert (Hlt : (List.length v < f)%nat) by (rewrite !skipn_length; lia);
      destruct (Hn Hlt) as [Hf Hp];
      destruct (dnssl_loop f v [] []) as [ds|e| |]; try congruence; [|exact I]
    end.
    destruct (List.length ds =? 0)%nat; exact I. }
  exact I.
Qed.

Lemma unsplit_err : forall fuel b o f, split_tlv fuel b = None ->
  (List.length b <= fuel)%nat -> (List.length b < f)%nat -> parse_opts f b o = Err EOther.
Proof.
  induction fuel as [|fuel IH]; intros b o f Hs Hle Hf.
  - destruct b; [discriminate|cbn [List.length] in Hle; lia].
  - cbn [split_tlv] in Hs. destruct f as [|f]; [lia|].
    destruct b as [|t [|l rest]]; [discriminate|reflexivity|].
    cbn [parse_opts]. 
    assert (Hblen : blen (t :: l :: rest) = N.of_nat (List.length rest) + 2) by (unfold blen; cbn [List.length]; lia).
    rewrite Hblen. destruct (N.of_nat (List.length rest) + 2 <? 2) eqn:E2; [lia|].
    change (at_ (t :: l :: rest) 1) with l. change (at_ (t :: l :: rest) 0) with t.
    destruct (N.eqb_spec l 0) as [->|Hl0]; [reflexivity|].
    destruct (l * 8 =? 0) eqn:E0; [lia|].
    destruct (List.length rest <? N.to_nat l * 8 - 2)%nat eqn:En.
    + apply Nat.ltb_lt in En. destruct (N.of_nat (List.length rest) + 2 <? l * 8) eqn:E3; [reflexivity|lia].
    + apply Nat.ltb_ge in En. destruct (N.of_nat (List.length rest) + 2 <? l * 8) eqn:E3; [lia|].
      destruct (split_tlv fuel (skipn (N.to_nat l * 8 - 2) rest)) as [r|] eqn:Er; [discriminate|].
      assert (Hn : N.to_nat (l * 8) = S (S (N.to_nat l * 8 - 2))) by lia.
      rewrite Hn. cbn [firstn skipn].
      remember (opt_step o t (t :: l :: firstn (N.to_nat l * 8 - 2) rest)) as R eqn:ER.
      assert (Hb : benign R) by (rewrite ER; apply opt_step_benign). clear ER.
      destruct R as [o'|e| |]; cbn [bind benign] in *; try contradiction.
      * apply (IH _ o' f Er); rewrite skipn_length; cbn [List.length] in *; lia.
      * destruct e; cbn [benign] in Hb; try contradiction; reflexivity.
Qed.

Theorem ra_options_unsplittable p : (16 <= List.length p)%nat ->
  split_tlv (List.length (skipn 16 p)) (skipn 16 p) = None -> ra_options p = Err EOther.
Proof.
  intros Hlen Hs. unfold ra_options.
  destruct (blen p <=? 16) eqn:E.
  - exfalso. assert (List.length p = 16%nat) by (unfold blen in E; lia).
    assert (Hk : skipn 16 p = []) by (apply skipn_all2; lia). rewrite Hk in Hs. discriminate.
  - apply (unsplit_err _ _ _ _ Hs); [lia|]. unfold opts_fuel. rewrite skipn_length. lia.
Qed.
