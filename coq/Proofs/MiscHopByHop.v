(* Proofs/MiscHopByHop.v — ParseHopByHopExtensions (with its length guard) is total. *)
From PV Require Import Base.Prelude Base.Slice Model.MiscHopByHop Proofs.HandlersTac.
Open Scope N_scope.

Lemma hbh_option_adv buffer pos : wf buffer -> (1 <= len buffer)%nat ->
  safe (hbh_option buffer pos) /\
  forall pos', hbh_option buffer pos = Ok pos' -> (pos < pos')%nat.
Proof.
  intros Hw H1. unfold hbh_option. rewrite idx_ok by lia. cbn [bind].
  repeat first
    [ match goal with |- context [Nat.ltb (len buffer) ?k] => destruct (Nat.ltb_spec (len buffer) k) end
    | rewrite idx_ok by lia; cbn [bind]
    | rewrite sl_ok by (unfold wf in Hw; lia); cbn [bind]
    | sif ];
    (split; [sdone | intros pos' E; first [discriminate | apply Ok_inj in E; lia]]).
Qed.

Lemma hbh_loop_safe fuel : forall data pos,
  wf data -> (pos < len data)%nat -> (len data - pos <= fuel)%nat ->
  safe (hbh_loop fuel data pos).
Proof.
  induction fuel as [|f IH]; intros data pos Hw Hp Hf; [lia|].
  cbn [hbh_loop]. rewrite slfrom_ok by lia. cbn [bind len].
  destruct (Nat.ltb_spec (len data - pos) 1); [lia|].
  set (buffer := mkSlice (skipn pos (arr data)) (len data - pos)).
  assert (Hwb : wf buffer) by (unfold buffer; slen).
  destruct (hbh_option_adv buffer pos Hwb ltac:(unfold buffer; cbn [len]; lia)) as [Hs Hadv].
  apply safe_bind; [exact Hs|]. intros pos' E. apply Hadv in E.
  destruct (Nat.ltb_spec (len data) pos'); [sdone|].
  destruct (Nat.eqb_spec pos' (len data)); [sdone|]. apply IH; [assumption|lia|lia].
Qed.

Theorem hbh_parse_total p : wf p ->
  forall fuel, (len p <= fuel)%nat -> safe (hbh_parse fuel p).
Proof.
  intros Hw fuel Hf. unfold hbh_parse.
  destruct (Nat.ltb_spec (len p) 2); [sdone|].
  rewrite idx_ok by lia. cbn [bind].
  destruct (Nat.ltb_spec (len p) (N.to_nat (nth 1 (arr p) 0) * 8 + 8)); [sdone|].
  rewrite sl_ok by (unfold wf in Hw; lia). cbn [bind].
  apply hbh_loop_safe; [slen| cbn [len]; lia | cbn [len]; lia].
Qed.

(* the former defect class: short headers are now an error *)
Example hbh_short_is_error :
  hbh_parse 10 (of_bytes [58]) = Err EParseFrame /\
  hbh_parse 10 (of_bytes [58; 1; 1; 4; 0; 0; 0; 0]) = Err EParseFrame.
Proof. split; vm_compute; reflexivity. Qed.

(* non-vacuity: a valid header with router alert + PadN, as sent with MLD reports *)
Example hbh_nonvacuous :
  let p := of_bytes [58; 0; 5; 2; 0; 0; 1; 0; 1; 2] in
  wf p /\ hbh_is_valid p = true /\ hbh_parse 10 p = Ok tt.
Proof. cbv zeta. split; [unfold wf, cap; cbn; lia|]. split; vm_compute; reflexivity. Qed.
