(* Proofs/DNSMerge.v — algebra of NameEntry.Merge and Host.Update*Name. *)
From PV Require Import Base.Prelude Model.DNSMerge.
Open Scope N_scope.

Lemma bytes_eqb_eq a b : bytes_eqb a b = true <-> a = b.
Proof.
  revert b; induction a as [|x a IH]; intros [|y b]; simpl; split; intros H; try discriminate; auto.
  - apply andb_true_iff in H as [H1 H2]. apply N.eqb_eq in H1. apply IH in H2. congruence.
  - inversion H; subst. rewrite N.eqb_refl. simpl. apply IH. reflexivity.
Qed.

Lemma bytes_eqb_refl a : bytes_eqb a a = true.
Proof. apply bytes_eqb_eq. reflexivity. Qed.

Lemma bytes_eqb_neq a b : bytes_eqb a b = false <-> a <> b.
Proof.
  split; intros H.
  - intros E. apply bytes_eqb_eq in E. congruence.
  - destruct (bytes_eqb a b) eqn:E; auto. apply bytes_eqb_eq in E. contradiction.
Qed.

Lemma nonempty_true a : nonempty a = true <-> a <> [].
Proof. destruct a; simpl; split; intros; congruence. Qed.

(* one attribute *)
Definition chg (e n : bytes) : bool := nonempty n && negb (bytes_eqb e n).
Definition upd (e n : bytes) : bytes := if chg e n then n else e.

Lemma chg_iff e n : chg e n = true <-> upd e n <> e.
Proof.
  unfold upd. destruct (chg e n) eqn:C; split; intros H; try congruence.
  unfold chg in C. apply andb_true_iff in C as [_ C]. apply negb_true_iff in C.
  apply bytes_eqb_neq in C. congruence.
Qed.

Lemma chg_upd e n : chg (upd e n) n = false.
Proof.
  unfold upd. destruct (chg e n) eqn:C.
  - unfold chg. rewrite bytes_eqb_refl. simpl. apply andb_false_r.
  - exact C.
Qed.

Lemma upd_idem e n : upd (upd e n) n = upd e n.
Proof. unfold upd at 1. rewrite chg_upd. reflexivity. Qed.

Lemma upd_keeps e n : e <> [] -> upd e n <> [].
Proof.
  unfold upd, chg. intros H. destruct (nonempty n) eqn:N; simpl; auto.
  destruct (negb (bytes_eqb e n)); auto. apply nonempty_true. exact N.
Qed.

Lemma upd_cases e n : upd e n = e \/ (upd e n = n /\ n <> []).
Proof.
  unfold upd, chg. destruct (nonempty n) eqn:N; simpl; auto.
  destruct (negb (bytes_eqb e n)); auto. right. split; auto. apply nonempty_true. exact N.
Qed.

(* merge in terms of upd/chg *)
Definition modified (e n : NameEntry) : bool :=
  chg (ne_name e) (ne_name n) || chg (ne_model e) (ne_model n)
  || chg (ne_os e) (ne_os n) || chg (ne_manufacturer e) (ne_manufacturer n).

Lemma merge_eq e n :
  merge e n =
  (mkNE (ne_type n) (upd (ne_name e) (ne_name n)) (upd (ne_model e) (ne_model n))
        (upd (ne_manufacturer e) (ne_manufacturer n)) (upd (ne_os e) (ne_os n))
        (if modified e n && negb (ne_expire n =? 0) then ne_expire n else ne_expire e),
   modified e n).
Proof. reflexivity. Qed.

(* the learned attributes (Type is the source tag, see DESIGN C17) *)
Definition attrs (e : NameEntry) : bytes * bytes * bytes * bytes * N :=
  (ne_name e, ne_model e, ne_os e, ne_manufacturer e, ne_expire e).

(* ---- no erasure ---- *)
Lemma merge_no_erase e n :
  let r := fst (merge e n) in
  (ne_name e <> [] -> ne_name r <> []) /\
  (ne_model e <> [] -> ne_model r <> []) /\
  (ne_os e <> [] -> ne_os r <> []) /\
  (ne_manufacturer e <> [] -> ne_manufacturer r <> []) /\
  (ne_expire e <> 0 -> ne_expire r <> 0).
Proof.
  rewrite merge_eq. cbn [fst ne_name ne_model ne_os ne_manufacturer ne_expire].
  repeat split; try apply upd_keeps.
  intros H. destruct (modified e n && negb (ne_expire n =? 0)) eqn:C; auto.
  apply andb_true_iff in C as [_ C]. apply negb_true_iff in C. apply N.eqb_neq in C. exact C.
Qed.

(* stronger: every attribute is either kept or replaced by the learned non-empty one *)
Lemma merge_keeps_or_learns e n :
  let r := fst (merge e n) in
  (ne_name r = ne_name e \/ (ne_name r = ne_name n /\ ne_name n <> [])) /\
  (ne_model r = ne_model e \/ (ne_model r = ne_model n /\ ne_model n <> [])) /\
  (ne_os r = ne_os e \/ (ne_os r = ne_os n /\ ne_os n <> [])) /\
  (ne_manufacturer r = ne_manufacturer e \/ (ne_manufacturer r = ne_manufacturer n /\ ne_manufacturer n <> [])) /\
  (ne_expire r = ne_expire e \/ (ne_expire r = ne_expire n /\ ne_expire n <> 0)).
Proof.
  rewrite merge_eq. cbn [fst ne_name ne_model ne_os ne_manufacturer ne_expire].
  repeat split; try apply upd_cases.
  destruct (modified e n && negb (ne_expire n =? 0)) eqn:C; auto.
  apply andb_true_iff in C as [_ C]. apply negb_true_iff in C. apply N.eqb_neq in C. auto.
Qed.

(* ---- reports a change exactly when some attribute changed ---- *)
Lemma merge_reports_iff_changed e n :
  snd (merge e n) = true <-> attrs (fst (merge e n)) <> attrs e.
Proof.
  rewrite merge_eq. unfold attrs. cbn [fst snd ne_name ne_model ne_os ne_manufacturer ne_expire].
  unfold modified. split.
  - intros H E. inversion E as [[E1 E2 E3 E4 E5]].
    repeat (apply orb_true_iff in H as [H|H]); apply chg_iff in H; congruence.
  - intros H.
    destruct (chg (ne_name e) (ne_name n)) eqn:C1; [reflexivity|].
    destruct (chg (ne_model e) (ne_model n)) eqn:C2; [reflexivity|].
    destruct (chg (ne_os e) (ne_os n)) eqn:C3; [reflexivity|].
    destruct (chg (ne_manufacturer e) (ne_manufacturer n)) eqn:C4; [reflexivity|].
    exfalso. apply H. unfold upd. rewrite C1, C2, C3, C4. reflexivity.
Qed.

(* ---- idempotent ---- *)
Lemma modified_after e n : modified (fst (merge e n)) n = false.
Proof.
  rewrite merge_eq. unfold modified. cbn [fst ne_name ne_model ne_os ne_manufacturer].
  rewrite !chg_upd. reflexivity.
Qed.

Lemma merge_idempotent e n :
  merge (fst (merge e n)) n = (fst (merge e n), false).
Proof.
  rewrite (merge_eq (fst (merge e n)) n). rewrite modified_after.
  rewrite merge_eq. cbn [fst ne_name ne_model ne_os ne_manufacturer ne_expire ne_type andb].
  rewrite !upd_idem. reflexivity.
Qed.

(* ================================================================== *)
(* Host.Update*Name *)

Lemma source_eq_dec (a b : source) : {a = b} + {a <> b}.
Proof. decide equality. Defined.

Lemma nget_nset s v x : nget s (nset s v x) = v.
Proof. destruct s; reflexivity. Qed.
Lemma nget_nset_other s s' v x : s <> s' -> nget s' (nset s v x) = nget s' x.
Proof. destruct s, s'; intros H; try reflexivity; contradiction. Qed.
Lemma nset_nset s v w x : nset s v (nset s w x) = nset s v x.
Proof. destruct s; reflexivity. Qed.

Definition changed (s : source) (st : hstate) (n : NameEntry) : bool :=
  snd (merge (nget s (h_names st)) n).

Lemma update_host_entry s st n :
  nget s (h_names (update s st n)) = fst (merge (nget s (h_names st)) n).
Proof. unfold update. destruct (snd _); cbn [h_names]; apply nget_nset. Qed.

Lemma update_other_sources s s' st n : s <> s' ->
  nget s' (h_names (update s st n)) = nget s' (h_names st) /\
  nget s' (m_names (update s st n)) = nget s' (m_names st).
Proof.
  intros H. unfold update. destruct (snd _); cbn [h_names m_names]; rewrite ?nget_nset_other by exact H; auto.
Qed.

(* dirty is set exactly when the host's entry changed (and is never cleared here) *)
Lemma update_dirty s st n :
  h_dirty (update s st n) = h_dirty st || changed s st n.
Proof.
  unfold update, changed. destruct (snd _); cbn [h_dirty]; [apply eq_sym, orb_true_r | apply eq_sym, orb_false_r].
Qed.

Lemma update_reports_iff_changed s st n :
  changed s st n = true <-> attrs (nget s (h_names (update s st n))) <> attrs (nget s (h_names st)).
Proof. rewrite update_host_entry. apply merge_reports_iff_changed. Qed.

Definition keeps (a b : NameEntry) : Prop :=
  (ne_name a <> [] -> ne_name b <> []) /\
  (ne_model a <> [] -> ne_model b <> []) /\
  (ne_os a <> [] -> ne_os b <> []) /\
  (ne_manufacturer a <> [] -> ne_manufacturer b <> []) /\
  (ne_expire a <> 0 -> ne_expire b <> 0).

Lemma keeps_refl a : keeps a a.
Proof. unfold keeps; tauto. Qed.

(* neither the host's nor the MAC entry's attributes of ANY source are erased *)
Lemma update_no_erase s st n : forall s',
  keeps (nget s' (h_names st)) (nget s' (h_names (update s st n))) /\
  keeps (nget s' (m_names st)) (nget s' (m_names (update s st n))).
Proof.
  intros s'. destruct (source_eq_dec s s') as [<-|Hne].
  - rewrite update_host_entry. split; [apply merge_no_erase|].
    unfold update. destruct (snd _); cbn [m_names]; [rewrite nget_nset; apply merge_no_erase | apply keeps_refl].
  - destruct (update_other_sources s s' st n Hne) as [-> ->]. split; apply keeps_refl.
Qed.

(* when a change is reported the MAC entry has learned every non-empty attribute of the host entry *)
Lemma update_mac_copy s st n : changed s st n = true ->
  let h := nget s (h_names (update s st n)) in
  let m := nget s (m_names (update s st n)) in
  (ne_name h <> [] -> ne_name m = ne_name h) /\
  (ne_model h <> [] -> ne_model m = ne_model h) /\
  (ne_os h <> [] -> ne_os m = ne_os h) /\
  (ne_manufacturer h <> [] -> ne_manufacturer m = ne_manufacturer h).
Proof.
  intros C. rewrite update_host_entry. unfold update. unfold changed in C. rewrite C.
  cbn [m_names]. rewrite nget_nset. set (h := fst (merge (nget s (h_names st)) n)).
  rewrite merge_eq. cbn [fst ne_name ne_model ne_os ne_manufacturer].
  assert (K : forall e x, x <> [] -> upd e x = x).
  { intros e x Hx. unfold upd, chg. apply nonempty_true in Hx. rewrite Hx. simpl.
    destruct (bytes_eqb e x) eqn:E; simpl; auto. apply bytes_eqb_eq in E. auto. }
  repeat split; apply K.
Qed.

Lemma update_idempotent s st n :
  update s (update s st n) n = update s st n.
Proof.
  unfold update at 1. rewrite update_host_entry. rewrite merge_idempotent. cbn [fst snd].
  destruct (update s st n) as [hn d mn] eqn:U. cbn [h_names h_dirty m_names].
  f_equal.
  assert (E : nget s hn = fst (merge (nget s (h_names st)) n)).
  { pose proof (update_host_entry s st n) as H. rewrite U in H. exact H. }
  rewrite <- E. destruct s, hn; reflexivity.
Qed.
