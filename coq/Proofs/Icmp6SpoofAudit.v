(* Proofs/Icmp6SpoofAudit.v — clause audit of C14, confinement part: who can ever be the Ethernet
   destination of a forged advertisement. *)
From PV Require Import Base.Prelude Model.Icmp6SpoofRA Model.Icmp6Spoof Proofs.Icmp6Spoof Proofs.Icmp6SpoofStop.
Open Scope N_scope.

(* a MAC that no StartHunt of the history names never receives a forged advertisement: in particular
   not our own MAC and not a router's MAC, unless the caller itself hunts them *)
Theorem never_unhunted c rep evs m : no_start m evs ->
  forall s e l, In (s, e, ONAs l) (fst (run c (init rep) evs)) -> forall n, In n l -> bytes_eqb (na_eth_dst n) m = false.
Proof.
  intros Hs. apply count_to_zero.
  pose proof (run_bound_to c m evs (init rep) eq_refl Hs) as Hb. cbn [init loops pend_to] in Hb. lia.
Qed.

(* StartHunt itself does not refuse our own MAC or a router's MAC: the stronger reading "never us,
   never the router" is false of the code; the callers (the session's capture logic) must not ask for it *)
Definition ex_self_hist (c : config) : list event :=
  [RxRA ex_src [0;102;102;102;102;102] ex_ra true; StartHunt (mkAddr (host_mac c) []); Lookup 0 [0%nat]; Send 0].

Theorem never_self_refuted : exists c rep evs s e n,
  In (s, e, ONAs [n]) (fst (run c (init rep) evs)) /\ na_eth_dst n = host_mac c.
Proof.
  exists ex_cfg, 3%Z, (ex_self_hist ex_cfg). eexists. eexists. eexists. split.
  - vm_compute. right. right. right. left. reflexivity.
  - reflexivity.
Qed.

(* the MAC of the learned router (source LLA aa:bb:cc:dd:ee:ff of ex_ra) hunted by the caller *)
Theorem never_router_refuted : exists c rep evs s e n r,
  In (s, e, ONAs [n]) (fst (run c (init rep) evs)) /\ rt_find (routers s) (na_target n) = Some r /\ na_eth_dst n = r_mac r.
Proof.
  exists ex_cfg, 3%Z,
    [RxRA ex_src [0;102;102;102;102;102] ex_ra true; StartHunt (mkAddr [170;187;204;221;238;255] []); Lookup 0 [0%nat]; Send 0].
  eexists. eexists. eexists. eexists. split; [vm_compute; right; right; right; left; reflexivity|].
  split; vm_compute; reflexivity.
Qed.
