(* Proofs/ViewsLen.v -- generated: T_len_only for every view type, from T_spec (Proofs/ViewsBase.len_only_of_spec). *)
From PV Require Import Proofs.ViewsBase Proofs.Views Proofs.Views2 Proofs.Views3 Proofs.Views4 Proofs.Views6.
Lemma ARP_len_only v v' : wf v -> wf v' -> bytes_ok (arr v) -> bytes_ok (arr v') ->
  ARP_IsValid v = Ok true -> ARP_IsValid v' = Ok true -> view v = view v' -> getters_len_only [] ARP_getters ARP_specs v v'.
Proof. intros. eapply len_only_of_spec; eauto using ARP_spec. Qed.
Lemma DHCP4_len_only v v' : wf v -> wf v' -> bytes_ok (arr v) -> bytes_ok (arr v') ->
  DHCP4_IsValid v = Ok true -> DHCP4_IsValid v' = Ok true -> view v = view v' -> getters_len_only [] DHCP4_getters DHCP4_specs v v'.
Proof. intros. eapply len_only_of_spec; eauto using DHCP4_spec. Qed.
Lemma DNS_len_only v v' : wf v -> wf v' -> bytes_ok (arr v) -> bytes_ok (arr v') ->
  DNS_IsValid v = Ok true -> DNS_IsValid v' = Ok true -> view v = view v' -> getters_len_only [] DNS_getters DNS_specs v v'.
Proof. intros. eapply len_only_of_spec; eauto using DNS_spec. Qed.
Lemma Ether_len_only v v' : wf v -> wf v' -> bytes_ok (arr v) -> bytes_ok (arr v') ->
  Ether_IsValid v = Ok true -> Ether_IsValid v' = Ok true -> view v = view v' -> getters_len_only Ether_findings Ether_getters Ether_specs v v'.
Proof. intros. eapply len_only_of_spec; eauto using Ether_spec. Qed.
Lemma Pause_len_only v v' : wf v -> wf v' -> bytes_ok (arr v) -> bytes_ok (arr v') ->
  Pause_IsValid v = Ok true -> Pause_IsValid v' = Ok true -> view v = view v' -> getters_len_only [] Pause_getters Pause_specs v v'.
Proof. intros. eapply len_only_of_spec; eauto using Pause_spec. Qed.
Lemma HBH_len_only v v' : wf v -> wf v' -> bytes_ok (arr v) -> bytes_ok (arr v') ->
  HBH_IsValid v = Ok true -> HBH_IsValid v' = Ok true -> view v = view v' -> getters_len_only [] HBH_getters HBH_specs v v'.
Proof. intros. eapply len_only_of_spec; eauto using HBH_spec. Qed.
Lemma ICMP_len_only v v' : wf v -> wf v' -> bytes_ok (arr v) -> bytes_ok (arr v') ->
  ICMP_IsValid v = Ok true -> ICMP_IsValid v' = Ok true -> view v = view v' -> getters_len_only [] ICMP_getters ICMP_specs v v'.
Proof. intros. eapply len_only_of_spec; eauto using ICMP_spec. Qed.
Lemma NA_len_only v v' : wf v -> wf v' -> bytes_ok (arr v) -> bytes_ok (arr v') ->
  NA_IsValid v = Ok true -> NA_IsValid v' = Ok true -> view v = view v' -> getters_len_only [] NA_getters NA_specs v v'.
Proof. intros. eapply len_only_of_spec; eauto using NA_spec. Qed.
Lemma NS_len_only v v' : wf v -> wf v' -> bytes_ok (arr v) -> bytes_ok (arr v') ->
  NS_IsValid v = Ok true -> NS_IsValid v' = Ok true -> view v = view v' -> getters_len_only [] NS_getters NS_specs v v'.
Proof. intros. eapply len_only_of_spec; eauto using NS_spec. Qed.
Lemma Redirect6_len_only v v' : wf v -> wf v' -> bytes_ok (arr v) -> bytes_ok (arr v') ->
  Redirect6_IsValid v = Ok true -> Redirect6_IsValid v' = Ok true -> view v = view v' -> getters_len_only [] Redirect6_getters Redirect6_specs v v'.
Proof. intros. eapply len_only_of_spec; eauto using Redirect6_spec. Qed.
Lemma RA_len_only v v' : wf v -> wf v' -> bytes_ok (arr v) -> bytes_ok (arr v') ->
  RA_IsValid v = Ok true -> RA_IsValid v' = Ok true -> view v = view v' -> getters_len_only [] RA_getters RA_specs v v'.
Proof. intros. eapply len_only_of_spec; eauto using RA_spec. Qed.
Lemma ICMPEcho_len_only v v' : wf v -> wf v' -> bytes_ok (arr v) -> bytes_ok (arr v') ->
  ICMPEcho_IsValid v = Ok true -> ICMPEcho_IsValid v' = Ok true -> view v = view v' -> getters_len_only [] ICMPEcho_getters ICMPEcho_specs v v'.
Proof. intros. eapply len_only_of_spec; eauto using ICMPEcho_spec. Qed.
Lemma IEEE1905_len_only v v' : wf v -> wf v' -> bytes_ok (arr v) -> bytes_ok (arr v') ->
  IEEE1905_IsValid v = Ok true -> IEEE1905_IsValid v' = Ok true -> view v = view v' -> getters_len_only [] IEEE1905_getters IEEE1905_specs v v'.
Proof. intros. eapply len_only_of_spec; eauto using IEEE1905_spec. Qed.
Lemma IP4_len_only v v' : wf v -> wf v' -> bytes_ok (arr v) -> bytes_ok (arr v') ->
  IP4_IsValid v = Ok true -> IP4_IsValid v' = Ok true -> view v = view v' -> getters_len_only [] IP4_getters IP4_specs v v'.
Proof. intros. eapply len_only_of_spec; eauto using IP4_spec. Qed.
Lemma IP6_len_only v v' : wf v -> wf v' -> bytes_ok (arr v) -> bytes_ok (arr v') ->
  IP6_IsValid v = Ok true -> IP6_IsValid v' = Ok true -> view v = view v' -> getters_len_only [] IP6_getters IP6_specs v v'.
Proof. intros. eapply len_only_of_spec; eauto using IP6_spec. Qed.
Lemma RRCP_len_only v v' : wf v -> wf v' -> bytes_ok (arr v) -> bytes_ok (arr v') ->
  RRCP_IsValid v = Ok true -> RRCP_IsValid v' = Ok true -> view v = view v' -> getters_len_only [] RRCP_getters RRCP_specs v v'.
Proof. intros. eapply len_only_of_spec; eauto using RRCP_spec. Qed.
Lemma SNAP_len_only v v' : wf v -> wf v' -> bytes_ok (arr v) -> bytes_ok (arr v') ->
  SNAP_IsValid v = Ok true -> SNAP_IsValid v' = Ok true -> view v = view v' -> getters_len_only [] SNAP_getters SNAP_specs v v'.
Proof. intros. eapply len_only_of_spec; eauto using SNAP_spec. Qed.
Lemma TCP_len_only v v' : wf v -> wf v' -> bytes_ok (arr v) -> bytes_ok (arr v') ->
  TCP_IsValid v = Ok true -> TCP_IsValid v' = Ok true -> view v = view v' -> getters_len_only [] TCP_getters TCP_specs v v'.
Proof. intros. eapply len_only_of_spec; eauto using TCP_spec. Qed.
Lemma UDP_len_only v v' : wf v -> wf v' -> bytes_ok (arr v) -> bytes_ok (arr v') ->
  UDP_IsValid v = Ok true -> UDP_IsValid v' = Ok true -> view v = view v' -> getters_len_only [] UDP_getters UDP_specs v v'.
Proof. intros. eapply len_only_of_spec; eauto using UDP_spec. Qed.
Lemma U880a_len_only v v' : wf v -> wf v' -> bytes_ok (arr v) -> bytes_ok (arr v') ->
  U880a_IsValid v = Ok true -> U880a_IsValid v' = Ok true -> view v = view v' -> getters_len_only [] U880a_getters U880a_specs v v'.
Proof. intros. eapply len_only_of_spec; eauto using U880a_spec. Qed.
Lemma RS_len_only v v' : wf v -> wf v' -> bytes_ok (arr v) -> bytes_ok (arr v') ->
  RS_IsValid v = Ok true -> RS_IsValid v' = Ok true -> view v = view v' -> getters_len_only [] RS_getters RS_specs v v'.
Proof. intros. eapply len_only_of_spec; eauto using RS_spec. Qed.
Lemma R4_len_only v v' : wf v -> wf v' -> bytes_ok (arr v) -> bytes_ok (arr v') ->
  R4_IsValid v = Ok true -> R4_IsValid v' = Ok true -> view v = view v' -> getters_len_only [] R4_getters R4_specs v v'.
Proof. intros. eapply len_only_of_spec; eauto using R4_spec. Qed.
Lemma LLC_len_only v v' : wf v -> wf v' -> bytes_ok (arr v) -> bytes_ok (arr v') ->
  LLC_IsValid v = Ok true -> LLC_IsValid v' = Ok true -> view v = view v' -> getters_len_only [] LLC_getters LLC_specs v v'.
Proof. intros. eapply len_only_of_spec; eauto using LLC_spec. Qed.
Lemma LLDP_len_only v v' : wf v -> wf v' -> bytes_ok (arr v) -> bytes_ok (arr v') ->
  LLDP_IsValid v = Ok true -> LLDP_IsValid v' = Ok true -> view v = view v' -> getters_len_only [] LLDP_getters LLDP_specs v v'.
Proof. intros. eapply len_only_of_spec; eauto using LLDP_spec. Qed.
