(* Proofs/SendDns.v — the DNS question bytes the query paths build (dns_naming mdns.go via dnsmessage.Pack,
   nbns.go EncodeDNSQuery + encodeNBNSName) decode back, under the reference RFC 1035 question decoder, to
   the name, type and class that were asked for. *)
From PV Require Import Proofs.SendBase Model.Send Model.SendUdp Spec.SendRefUdp Proofs.Send Proofs.SendUdp.
Open Scope N_scope.

Lemma natN_of_nat n : natN (N.of_nat n) = n.
Proof.
  unfold natN. induction n as [|n IH]; [reflexivity|].
  rewrite Nat2N.inj_succ, N.iter_succ, IH. reflexivity.
Qed.

Lemma skipn_len_app {A} (a b : list A) : skipn (length a) (a ++ b) = b.
Proof. induction a; simpl; auto. Qed.
Lemma firstn_len_app {A} (a b : list A) : firstn (length a) (a ++ b) = a.
Proof. induction a; simpl; auto. f_equal; auto. Qed.

Lemma beq_labels_refl l : beq_labels l l = true.
Proof. induction l; simpl; auto. rewrite beq_refl. exact IHl. Qed.

Definition label_ok (l : bytes) : Prop := (0 < length l <= 63)%nat.

(* one label (written by labels_aux from its reversed accumulator) followed by anything *)
Lemma dns_labels_step fuel (cur mid tail : bytes) : label_ok (rev cur) ->
  dns_labels (S fuel) (([N.of_nat (length cur)] ++ rev cur ++ mid) ++ tail) =
  match dns_labels fuel (mid ++ tail) with Some (ls, r) => Some (rev cur :: ls, r) | None => None end.
Proof.
  intros [H0 H63]. rewrite rev_length in H0, H63. rewrite <- !app_assoc. cbn [app dns_labels].
  destruct (N.eqb_spec (N.of_nat (length cur)) 0) as [Hx|_]; [unfold bytes, byte in *; lia|].
  destruct (N.ltb_spec 63 (N.of_nat (length cur))) as [Hx|_]; [unfold bytes, byte in *; lia|].
  rewrite natN_of_nat, <- (rev_length cur).
  match goal with |- context [Nat.ltb ?a ?b] =>
    destruct (Nat.ltb_spec a b) as [Hx|Hx]; [exfalso; rewrite app_length in Hx; unfold bytes, byte in *; lia|] end.
  rewrite skipn_len_app, firstn_len_app. reflexivity.
Qed.

Lemma dns_labels_step1 fuel (lab rest : bytes) : label_ok lab ->
  dns_labels (S fuel) ((N.of_nat (length lab) :: lab) ++ rest) =
  match dns_labels fuel rest with Some (ls, r) => Some (lab :: ls, r) | None => None end.
Proof.
  intros [H0 H63]. cbn [app dns_labels].
  destruct (N.eqb_spec (N.of_nat (length lab)) 0) as [Hx|_]; [unfold bytes, byte in *; lia|].
  destruct (N.ltb_spec 63 (N.of_nat (length lab))) as [Hx|_]; [unfold bytes, byte in *; lia|].
  rewrite natN_of_nat.
  match goal with |- context [Nat.ltb ?a ?b] =>
    destruct (Nat.ltb_spec a b) as [Hx|Hx]; [exfalso; rewrite app_length in Hx; unfold bytes, byte in *; lia|] end.
  rewrite skipn_len_app, firstn_len_app. reflexivity.
Qed.

Lemma labels_decode s : forall cur tail fuel,
  Forall label_ok (split_dots s cur) -> (length s + 2 <= fuel)%nat ->
  dns_labels fuel (labels_aux s cur ++ tail) = Some (split_dots s cur, tail).
Proof.
  induction s as [|x r IH]; intros cur tail fuel HF Hf.
  - cbn [labels_aux split_dots] in *. destruct cur as [|c cur].
    + destruct fuel; [simpl in Hf; lia|]. reflexivity.
    + destruct fuel as [|[|f]]; try (simpl in Hf; lia).
      inversion HF as [|? ? Hl _]; subst.
      rewrite dns_labels_step by exact Hl. reflexivity.
  - cbn [labels_aux split_dots] in *. destruct (x =? 46).
    + inversion HF as [|? ? Hl HF']; subst.
      destruct fuel as [|f]; [simpl in Hf; lia|].
      rewrite dns_labels_step by exact Hl.
      rewrite IH; [reflexivity|exact HF'|simpl in Hf; lia].
    + apply IH; [exact HF|simpl in Hf; lia].
Qed.

Lemma labels_aux_len s : forall cur, (length s + length cur + 1 <= length (labels_aux s cur))%nat.
Proof.
  induction s as [|x r IH]; intros cur.
  - cbn [labels_aux]. destruct cur; [simpl; lia|]. rewrite !app_length, rev_length. cbn [length]. lia.
  - cbn [labels_aux]. destruct (x =? 46).
    + rewrite !app_length, rev_length. cbn [length].
      apply (Nat.le_trans _ (1 + (length cur + (length r + 0 + 1)))); [lia|].
      apply le_n_S, Nat.add_le_mono_l. exact (IH []).
    + eapply Nat.le_trans; [|apply IH]. cbn [length]. lia.
Qed.

(* the question of a query: name as asked (labels of 1..63 bytes), type, class *)
Lemma dns_query_decodes name qt qc :
  Forall label_ok (split_dots name []) -> qt < 65536 -> qc < 65536 ->
  wf_dns_query None (split_dots name []) qt qc (dns_query 0 0 (dns_name name) qt qc) = true.
Proof.
  intros HF Hqt Hqc. unfold wf_dns_query, dns_query, dns_name.
  cbn [app length Nat.leb skipn].
  change (hi8 0) with 0. change (lo8 0) with 0.
  unfold w16. cbn [nth]. cbn [be16]. cbn -[dns_labels labels_aux split_dots].
  rewrite labels_decode; [|exact HF|].
  - rewrite beq_labels_refl. cbn [lenb length Nat.eqb andb nth].
    unfold be16, hi8, lo8. rewrite !be16_hi_lo by assumption. rewrite !N.eqb_refl. reflexivity.
  - rewrite app_length. pose proof (labels_aux_len name []) as HL. cbn [length] in *. unfold bytes, byte in *. lia.
Qed.

(* SendMDNSQuery / SendLLMNRQuery in full: frame and question *)
Lemma dns_name_ok name : bytes_ok name -> (length name <= 254)%nat -> bytes_ok (dns_name name).
Proof.
  unfold dns_name. intros Hb Hl.
  assert (G : forall s cur, bytes_ok s -> bytes_ok cur -> (length s + length cur <= 254)%nat -> bytes_ok (labels_aux s cur)).
  { induction s as [|x r IH]; intros cur Hs Hc Hlen.
    - cbn [labels_aux]. destruct cur; [oks|]. apply bytes_ok_app. split; [cbn [length] in *; oks|].
      apply bytes_ok_app. split; [|oks]. unfold bytes_ok in *. apply Forall_rev. exact Hc.
    - inversion Hs as [|? ? Hx Hr]; subst. cbn [labels_aux]. destruct (x =? 46).
      + apply bytes_ok_app. split; [cbn [length] in *; oks|]. apply bytes_ok_app. split.
        * unfold bytes_ok in *. apply Forall_rev. exact Hc.
        * apply IH; [exact Hr|constructor|cbn [length] in *; lia].
      + apply IH; [exact Hr|constructor; assumption|cbn [length] in *; lia]. }
  apply G; [exact Hb|constructor|cbn [length]; lia].
Qed.

Lemma labels_aux_len_le s : forall cur, (length (labels_aux s cur) <= length s + length cur + 2)%nat.
Proof.
  induction s as [|x r IH]; intros cur.
  - cbn [labels_aux]. destruct cur; [simpl; lia|]. rewrite !app_length, rev_length. cbn [length]. lia.
  - cbn [labels_aux]. destruct (x =? 46).
    + rewrite !app_length, rev_length. cbn [length].
      apply (Nat.le_trans _ (1 + (length cur + (length r + 0 + 2)))); [|lia].
      apply le_n_S, Nat.add_le_mono_l. exact (IH []).
    + eapply Nat.le_trans; [apply IH|]. cbn [length]. lia.
Qed.

(* the model's segment splitter is the spec's *)
Lemma dot_segments_spec s : forall cur, dot_segments s cur = split_dots s cur.
Proof. induction s as [|x r IH]; intros cur; cbn [dot_segments split_dots]; [reflexivity|]. rewrite !IH. reflexivity. Qed.

Lemma is_root_spec name : is_root name = true -> name = [46].
Proof.
  destruct name as [|x [|y r]]; cbn [is_root]; try discriminate. intros H. apply N.eqb_eq in H. subst. reflexivity.
Qed.

(* what dnsmessage accepts, in terms of the spec: length, labels of 1..63 bytes *)
Lemma pack_ok_labels name : dns_pack_ok name = true -> is_root name = false ->
  (length name <= 254)%nat /\ Forall label_ok (split_dots name []).
Proof.
  unfold dns_pack_ok. intros H Hr. rewrite Hr in H. cbn [orb] in H.
  apply andb_true_iff in H. destruct H as [H HD]. apply andb_true_iff in H. destruct H as [H HC].
  apply andb_true_iff in H. destruct H as [HA HB].
  split; [apply Nat.leb_le; exact HA|].
  rewrite <- dot_segments_spec. apply Forall_forall. intros l Hl.
  rewrite forallb_forall in HD. specialize (HD l Hl).
  unfold seg_ok in HD. apply andb_true_iff in HD. destruct HD as [A B].
  apply Nat.leb_le in A. apply Nat.leb_le in B. unfold label_ok. lia.
Qed.

Lemma query_labels_nonroot name : is_root name = false -> query_labels name = split_dots name [].
Proof. unfold query_labels, is_root. intros ->. reflexivity. Qed.

(* SendMDNSQuery / SendLLMNRQuery over ALL names: a name dnsmessage accepts (<= 254 bytes, final dot, labels of
   1..63 bytes, or the root) is sent and decodes back to exactly its labels; every other name is refused *)
Lemma dns_query_sent c name qt (send : cfg -> bytes -> res (list bytes)) dmac dip port :
  (forall c name, mac_ok (host_mac c) -> ip4_ok (host_ip4 c) -> dns_pack_ok name = true ->
     bytes_ok (dns_wire_name name) -> (length (dns_wire_name name) <= 1400)%nat ->
     exists fr, send c name = Ok [fr] /\
       wf_udp4 (host_mac c) dmac (host_ip4 c) dip port port (beq (dns_query 0 0 (dns_wire_name name) qt 255)) true fr = true) ->
  qt < 65536 ->
  mac_ok (host_mac c) -> ip4_ok (host_ip4 c) -> bytes_ok name -> dns_pack_ok name = true ->
  exists fr, send c name = Ok [fr] /\
    wf_udp4 (host_mac c) dmac (host_ip4 c) dip port port (wf_dns_query None (query_labels name) qt 255) true fr = true.
Proof.
  intros Hframe Hqt H1 H2 Hb Hpk.
  assert (Hwire : bytes_ok (dns_wire_name name) /\ (length (dns_wire_name name) <= 1400)%nat /\
                  wf_dns_query None (query_labels name) qt 255 (dns_query 0 0 (dns_wire_name name) qt 255) = true).
  { unfold dns_wire_name. destruct (is_root name) eqn:Er.
    - apply is_root_spec in Er. subst name. split; [oks|]. split; [cbn; lia|].
      unfold wf_dns_query, dns_query, query_labels. cbn -[hi8 lo8].
      change (hi8 0) with 0. change (lo8 0) with 0. change (hi8 255) with 0. change (lo8 255) with 255.
      unfold w16, be16. cbn [nth]. unfold hi8, lo8. rewrite be16_hi_lo by lia. rewrite !N.eqb_refl. reflexivity.
    - destruct (pack_ok_labels name Hpk Er) as [Hl HF]. split; [apply dns_name_ok; auto; lia|]. split.
      + unfold dns_name. pose proof (labels_aux_len_le name []) as HL. cbn [length] in HL. unfold bytes, byte in *. lia.
      + rewrite query_labels_nonroot by exact Er. apply dns_query_decodes; auto; lia. }
  destruct Hwire as (Hw1 & Hw2 & Hw3).
  destruct (Hframe c name H1 H2 Hpk Hw1 Hw2) as (fr & E & W).
  exists fr. split; [exact E|].
  unfold wf_udp4 in *. destruct (ref_decode fr) as [[d s et l3]|]; [|discriminate].
  destruct l3 as [| tos id ff ttl proto a b l4 |]; try discriminate.
  destruct l4 as [| p1 p2 ck pl |]; try discriminate.
  destruct (beq (dns_query 0 0 (dns_wire_name name) qt 255) pl) eqn:Eb.
  - apply beq_eq in Eb. subst pl. rewrite Hw3. exact W.
  - rewrite !andb_false_r in W. cbn in W. rewrite ?andb_false_r in W. discriminate.
Qed.

Lemma mdns_query_wf c name :
  mac_ok (host_mac c) -> ip4_ok (host_ip4 c) -> bytes_ok name -> dns_pack_ok name = true ->
  exists fr, send_mdns_query c name = Ok [fr] /\
    wf_udp4 (host_mac c) (mac_of_mcast4 [224;0;0;251]) (host_ip4 c) [224;0;0;251] 5353 5353
      (wf_dns_query None (query_labels name) 255 255) true fr = true.
Proof. apply (dns_query_sent c name 255 send_mdns_query); [exact mdns_query_frame|lia]. Qed.

Lemma llmnr_query_wf c name :
  mac_ok (host_mac c) -> ip4_ok (host_ip4 c) -> bytes_ok name -> dns_pack_ok name = true ->
  exists fr, send_llmnr_query c name = Ok [fr] /\
    wf_udp4 (host_mac c) (mac_of_mcast4 [224;0;0;252]) (host_ip4 c) [224;0;0;252] 5355 5355
      (wf_dns_query None (query_labels name) 12 255) true fr = true.
Proof. apply (dns_query_sent c name 12 send_llmnr_query); [exact llmnr_query_frame|lia]. Qed.

(* ---------------------------------------------------------------- *)
(* NBNS: encodeNBNSName produces the RFC 1001 first-level encoding of the 16-byte padded name *)
Lemma land15_mod ch : ch < 256 -> N.land ch 15 = ch mod 16.
Proof.
  intros H. apply N.eqb_eq.
  apply (byte_sweep (fun x => N.land x 15 =? x mod 16)); [vm_compute; reflexivity|exact H].
Qed.

Lemma firstn_repeat_le {A} (x : A) k n : (k <= n)%nat -> firstn k (repeat x n) = repeat x k.
Proof. revert n; induction k; intros [|n] H; simpl; try lia; auto. f_equal. apply IHk. lia. Qed.

Lemma nbns_pad_spec name : (length name <= 16)%nat -> nbns_pad name = nb_pad name.
Proof.
  intros H. unfold nbns_pad, nb_pad.
  destruct (Nat.ltb_spec 16 (length name)) as [Hx|_]; [lia|].
  rewrite firstn_app. rewrite firstn_all2 by lia. f_equal.
  symmetry. apply firstn_repeat_le. lia.
Qed.

Lemma nb_pad_len name : length (nb_pad name) = 16%nat.
Proof. unfold nb_pad. rewrite firstn_length, app_length, repeat_length. lia. Qed.

Lemma nb_pad_ok name : bytes_ok name -> bytes_ok (nb_pad name).
Proof.
  intros H. unfold nb_pad. apply bytes_ok_firstn, bytes_ok_app. split; [exact H|apply bytes_ok_repeat; lia].
Qed.

Lemma nb_encode_eq l : bytes_ok l ->
  concat (map (fun ch => [u8 (65 + ch / 16); u8 (65 + N.land ch 15)]) l) = concat (map (fun ch => [65 + ch / 16; 65 + ch mod 16]) l).
Proof.
  induction 1 as [|x l Hx _ IH]; [reflexivity|]. cbn [map concat]. rewrite IH. f_equal.
  rewrite land15_mod by exact Hx. unfold u8. rewrite !N.mod_small by lia. reflexivity.
Qed.

Lemma bytes_ok_concat_map (f : N -> bytes) l : (forall ch, ch < 256 -> bytes_ok (f ch)) -> bytes_ok l -> bytes_ok (concat (map f l)).
Proof.
  intros Hf. induction 1 as [|x l Hx _ IH]; [constructor|]. cbn [map concat]. apply bytes_ok_app. split; auto.
Qed.

Lemma nb_label_len name : length (nb_label name) = 32%nat.
Proof.
  unfold nb_label. pose proof (nb_pad_len name) as H. revert H. generalize (nb_pad name) as l.
  intros l. revert l. assert (G : forall n (l : bytes), length l = n -> length (concat (map (fun ch => [65 + ch / 16; 65 + ch mod 16]) l)) = (2 * n)%nat).
  { induction n; intros [|x l] Hl; simpl in Hl; try discriminate; [reflexivity|].
    cbn [map concat app length]. rewrite (IHn l) by lia. lia. }
  intros l Hl. apply (G 16%nat l Hl).
Qed.

Lemma nbns_query_decodes seq name qt : seq < 65536 -> qt < 65536 -> bytes_ok name -> (length name <= 16)%nat ->
  wf_dns_query (Some seq) [nb_label name] qt 1 (dns_query seq 0 (nbns_name name) qt 1) = true.
Proof.
  intros Hs Hq Hb Hl. unfold wf_dns_query, dns_query, nbns_name.
  rewrite nbns_pad_spec by exact Hl. rewrite nb_encode_eq by (apply nb_pad_ok; exact Hb).
  fold (nb_label name).
  cbn [app length Nat.leb skipn].
  change (hi8 0) with 0. change (lo8 0) with 0.
  unfold w16. cbn [nth]. cbn -[dns_labels nb_label hi8 lo8].
  pose proof (nb_label_len name) as HL.
  assert (D : forall tail fuel, dns_labels (S (S fuel)) (32 :: (nb_label name ++ [0]) ++ tail) = Some ([nb_label name], tail)).
  { intros tail fuel.
    assert (E : 32 :: (nb_label name ++ [0]) ++ tail = (N.of_nat (length (nb_label name)) :: nb_label name) ++ (0 :: tail))
      by (rewrite HL; cbn [app]; rewrite <- app_assoc; reflexivity).
    rewrite E. rewrite dns_labels_step1 by (unfold label_ok; rewrite HL; lia). reflexivity. }
  unfold bytes, byte in *.
  rewrite D. rewrite beq_labels_refl. cbn [lenb length Nat.eqb andb nth].
  unfold be16, hi8, lo8. rewrite !be16_hi_lo by (assumption || lia). rewrite !N.eqb_refl. reflexivity.
Qed.

Lemma nbns_name_ok name : bytes_ok name -> (length name <= 16)%nat -> bytes_ok (nbns_name name) /\ length (nbns_name name) = 34%nat.
Proof.
  intros Hb Hl. unfold nbns_name. rewrite nbns_pad_spec by exact Hl. rewrite nb_encode_eq by (apply nb_pad_ok; exact Hb).
  fold (nb_label name). split.
  - apply bytes_ok_app. split; [oks|]. apply bytes_ok_app. split; [|oks].
    unfold nb_label. apply bytes_ok_concat_map. intros ch Hc. oks.
    + apply nb_pad_ok. exact Hb.
  - rewrite !app_length, nb_label_len. reflexivity.
Qed.

(* SendNBNSQuery / SendNBNSNodeStatus in full: frame and question (names of at most 16 bytes) *)
Lemma nbns_query_wf c sm si dm di seq name junk :
  mac_ok (host_mac c) -> ip4_ok si -> mac_ok dm -> ip4_ok di -> seq < 65536 ->
  bytes_ok name -> (length name <= 16)%nat -> length junk = EthMaxSize ->
  exists fr, send_nbns_query c (sm, si) (dm, di) seq name junk = Ok [fr] /\
    wf_udp4 (host_mac c) dm si di 137 137 (wf_dns_query (Some seq) [nb_label name] 32 1) false fr = true.
Proof.
  intros H1 H2 H3 H4 Hs Hb Hl HJ. unfold send_nbns_query.
  destruct (Nat.ltb_spec 16 (length name)) as [Hx|_]; [lia|].
  destruct (nbns_name_ok name Hb Hl) as [Hok Hlen].
  destruct (nbns_wf c sm si dm di (dns_query seq 0 (nbns_name name) 32 1) junk) as (fr & E & W); auto.
  - apply dns_query_ok; auto; lia.
  - unfold dns_query. rewrite !app_length, Hlen. cbn [length]. lia.
  - exists fr. split; [exact E|].
    apply (wf_udp4_weaken _ _ _ _ _ _ (dns_query seq 0 (nbns_name name) 32 1)); auto.
    apply nbns_query_decodes; auto; lia.
Qed.

Lemma nbns_node_status_wf c seq junk :
  mac_ok (host_mac c) -> ip4_ok (host_ip4 c) -> seq < 65536 -> length junk = EthMaxSize ->
  exists fr, send_nbns_node_status c seq junk = Ok [fr] /\
    wf_udp4 (host_mac c) eth_bcast (host_ip4 c) [255;255;255;255] 137 137
      (wf_dns_query (Some seq) [nb_label [42]] 33 1) true fr = true.
Proof.
  intros H1 H2 Hs HJ. unfold send_nbns_node_status.
  assert (Hstar : bytes_ok nbns_star /\ length nbns_star = 16%nat) by (split; [unfold nbns_star; cbn; oks|reflexivity]).
  destruct Hstar as [Hb Hl].
  destruct (nbns_name_ok nbns_star Hb) as [Hok Hlen]; [lia|].
  destruct (nbns_wf c (host_mac c) (host_ip4 c) eth_bcast [255;255;255;255] (dns_query seq 0 (nbns_name nbns_star) 33 1) junk)
    as (fr & E & W); auto.
  - split; [reflexivity|oks].
  - split; [reflexivity|oks].
  - apply dns_query_ok; auto; lia.
  - unfold dns_query. rewrite !app_length, Hlen. cbn [length]. lia.
  - exists fr. split; [exact E|].
    apply (wf_udp4_weaken _ _ _ _ _ _ (dns_query seq 0 (nbns_name nbns_star) 33 1)); auto.
    replace (nb_label [42]) with (nb_label nbns_star) by (vm_compute; reflexivity).
    apply nbns_query_decodes; auto; lia.
Qed.

(* a name that does not fit the 16 octets of a NetBIOS name is refused (since fix 6d50a23; it used to be cut to 15) *)
Lemma nbns_query_refuses c src dst seq name junk :
  (16 < length name)%nat -> send_nbns_query c src dst seq name junk = Ok [].
Proof. intros H. unfold send_nbns_query. destruct (Nat.ltb_spec 16 (length name)); [reflexivity|lia]. Qed.

(* the MAC of the source Addr plays no role in the dns_naming paths: the Ethernet source is the NIC MAC *)
Lemma udp_src_mac_irrelevant c buf sm sm' si dst port seq name junk :
  send_mdns c buf (sm, si) dst port = send_mdns c buf (sm', si) dst port /\
  send_nbns_query c (sm, si) dst seq name junk = send_nbns_query c (sm', si) dst seq name junk.
Proof. split; reflexivity. Qed.
