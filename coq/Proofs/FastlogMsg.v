(* Proofs/FastlogMsg.v — Logger.Msg starts a line with the module tag and the quoted message;
   the reference decimal text denotes its number. *)
From PV Require Import Base.Prelude Model.Fastlog Model.FastlogOps Spec.TextSpec
  Proofs.Fastlog Proofs.FastlogLine.
Open Scope N_scope.

Definition msg_text (m msg : bytes) : text :=
  module7 m ++ match msg with [] => [] | _ => SP :: QUOTE :: msg ++ [QUOTE] end.

Lemma module7_len m : List.length (module7 m) = 7%nat.
Proof. unfold module7. rewrite !app_length, repeat_length, firstn_length. cbn [List.length]. lia. Qed.

Theorem msg_renders b0 m msg :
  List.length b0 = BUFSZ -> (List.length (msg_text m msg) <= BUFSZ)%nat ->
  exists l, msg_line b0 m msg = Ok l /\ wf l /\ index l = List.length (msg_text m msg) /\
            to_string l = Ok (msg_text m msg).
Proof.
  intros Hb F. unfold msg_line, msg_text in *. rewrite app_length, module7_len in F.
  set (l0 := mkLine (write_at b0 0 (module7 m)) 7).
  assert (W0 : wf l0).
  { unfold wf, l0. cbn [buf]. rewrite write_at_length; [exact Hb|]. rewrite module7_len, Hb. unfold BUFSZ. lia. }
  assert (T0 : text_of l0 = module7 m).
  { unfold text_of, l0. cbn [buf index]. rewrite <- (module7_len m).
    change (List.length (module7 m)) with (0 + List.length (module7 m))%nat.
    rewrite firstn_write_at; [reflexivity|]. rewrite module7_len, Hb. unfold BUFSZ. lia. }
  destruct msg as [|y r].
  - exists l0. split; [reflexivity|]. split; [exact W0|]. split.
    + rewrite app_nil_r, module7_len. reflexivity.
    + unfold to_string. cbn [index l0]. rewrite app_nil_r, T0. reflexivity.
  - set (msg := y :: r) in *.
    assert (E : emits 0 (fun l => (l <- append_byte l 32 ;; l <- append_byte l 34 ;; l <- copy_in l msg ;; append_byte l 34)%res)
                      (SP :: QUOTE :: msg ++ [QUOTE])).
    { change (SP :: QUOTE :: msg ++ [QUOTE]) with ([SP] ++ [QUOTE] ++ msg ++ [QUOTE]).
      apply emits_bind; [apply emits_byte|]. apply emits_bind; [apply emits_byte|].
      apply emits_bind; [apply emits_copy|apply emits_byte]. }
    destruct (E l0 W0) as (l1 & R1 & (W1 & I1 & T1)); [cbn [index l0]; lia|].
    exists l1. split; [exact R1|]. split; [exact W1|]. split.
    + rewrite I1, app_length, module7_len. reflexivity.
    + unfold to_string. destruct (Nat.ltb_spec BUFSZ (index l1)) as [H|H].
      * rewrite I1 in H. cbn [index l0] in H. lia.
      * rewrite T1, T0. reflexivity.
Qed.

(* ---------------------------------------------------------------- dec denotes its number *)

Lemma dec_value_snoc t d : dec_value (t ++ [d]) = dec_value t * 10 + (d - 48).
Proof. unfold dec_value. rewrite fold_left_app. reflexivity. Qed.

Lemma dec_value_rdig f : forall n, n < 10 ^ N.of_nat f -> dec_value (rev (rdig f n)) = n.
Proof.
  induction f as [|f IH]; intros n H.
  - cbn in H. cbn [rdig rev]. unfold dec_value. cbn. lia.
  - cbn [rdig]. destruct (N.eqb_spec n 0) as [Z|Z]; [subst; reflexivity|].
    cbn [rev]. rewrite dec_value_snoc. rewrite IH.
    + replace (n mod 10 + 48 - 48) with (n mod 10) by lia. lia.
    + rewrite Nat2N.inj_succ, N.pow_succ_r' in H. lia.
Qed.

Lemma pow2_le_pow10 k : 2 ^ k <= 10 ^ k.
Proof. apply N.pow_le_mono_l. lia. Qed.

Theorem dec_value_dec n : dec_value (dec n) = n.
Proof.
  destruct (N.eqb_spec n 0) as [Z|Z]; [subst; reflexivity|].
  unfold dec.
  assert (A : n < 2 ^ N.of_nat (S (N.to_nat (N.size n)))).
  { rewrite Nat2N.inj_succ, N2Nat.id, N.pow_succ_r'. pose proof (N.size_gt n). lia. }
  assert (B : n < 10 ^ N.of_nat (S (N.to_nat (N.size n)))).
  { pose proof (pow2_le_pow10 (N.of_nat (S (N.to_nat (N.size n))))). lia. }
  rewrite (dec_fuel_rdig _ (S (N.to_nat (N.size n))) n [] A B) by lia.
  rewrite app_nil_r. apply dec_value_rdig. exact B.
Qed.
