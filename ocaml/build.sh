#!/bin/bash
# build.sh Dxx — extract PV.Extract.Dxx.dispatch_line and build the driver
# /verif/ocaml/gen/Dxx/pvmodel. Directives in force: ExtrOcamlBasic,
# ExtrOcamlString (-> ExtrOcamlChar). nat/N/Z/positive stay inductive.
set -e
id="$1"   # dispatch module name, e.g. D15
here="$(cd "$(dirname "$0")" && pwd)"
coqdir="$here/../coq"
out="$here/gen/$id"
mkdir -p "$out"; cd "$out"
cat > extract.v <<EOF
From Coq Require Extraction ExtrOcamlBasic ExtrOcamlString.
From PV Require Import Extract.$id.
Extraction Language OCaml.
Extraction "model.ml" dispatch_line.
EOF
timeout 600 coqc -Q "$coqdir" PV extract.v > extract.log 2>&1 || { cat extract.log; exit 1; }
cp "$here/main.ml" main.ml
timeout 600 ocamlfind ocamlopt -w -a -O3 model.mli model.ml main.ml -o pvmodel 2>/dev/null \
  || timeout 600 ocamlfind ocamlopt -w -a model.mli model.ml main.ml -o pvmodel
