(* Generic driver: one case per input line "KIND arg ...", one output line per
   case, produced by the extracted Coq function Model.dispatch_line. *)
let explode s = List.init (String.length s) (String.get s)
let implode l = let b = Buffer.create 64 in List.iter (Buffer.add_char b) l; Buffer.contents b
let () =
  try
    while true do
      let line = input_line stdin in
      let out = try implode (Model.dispatch_line (explode line))
                with Stack_overflow -> "driver-stack-overflow" in
      print_string out; print_char '\n'
    done
  with End_of_file -> ()
